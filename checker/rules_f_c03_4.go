package main

// C03-R12 (finding F-C03-4) — the LENGTH of the scope a scoped answer is filed
// under is a length somebody declared for this very answer (the authority's
// SCOPE, or the SOURCE the query was sent with) — never a configured number.
//
// An authority that answers with SCOPE /24 says "this answer is for that /24
// only".  The only lengths the resolver may key the entry on are that one and,
// when the authority overshoots, the SOURCE length it actually saw (RFC 7871
// §7.1.2 / §7.3.1).  A length taken from configuration (Policy.MinScopeV4 /
// MinScopeV6: "refuse to key on anything narrower") re-labels the answer: with
// min_scope shorter than the declared scope the entry is filed under the
// enclosing prefix and every other subnet inside it hits it — the insert guard
// (scope contains the client, C03-R9) and the hit verifier (entry scope ==
// probed scope) both agree with the widened prefix.
//
// Structurally:
//   1. the producers of a scoped insert's scope are discovered, not listed: the
//      scope argument of every call of Store.SetFromResponseScoped is walked back
//      to the module functions whose result it is (through unexported helpers'
//      parameters and, transitively, through the netip.Prefix results those
//      functions return) — today that is ecs.(*Policy).ClampScope;
//   2. in every producer (its closures and the unexported helpers it calls),
//      the length operand of every prefix constructor netip.Addr.Prefix(n) /
//      netip.PrefixFrom(a, n) has, as its leaf origins, only results of
//      netip.Prefix.Bits() (a declared length) or netip.Addr.BitLen() (the full
//      address: the narrowest audience there is).  A struct field, a constant, a
//      parameter of an exported function or arithmetic is a violation.
// Nothing is executed; the walk is on SSA value descriptions.

import (
	"fmt"
	"go/types"
	"sort"

	"golang.org/x/tools/go/ssa"
)

func init() {
	wrap := func(id string, extra func(c *Ctx), explain string) {
		pd := props[id]
		if pd == nil {
			return
		}
		orig := pd.Run
		pd.Run = func(c *Ctx) { orig(c); extra(c) }
		pd.Explanation += " " + explain
	}
	wrap("C03", c03R12, "R12 (added, F-C03-4): in every function that produces the scope of a scoped insert (discovered from Store.SetFromResponseScoped's scope argument; today ecs.Policy.ClampScope) the length handed to netip.Addr.Prefix / netip.PrefixFrom originates only from netip.Prefix.Bits() of a declared prefix (authority SCOPE, query SOURCE) — never from configuration such as min_scope, which would file a /24-scoped answer under the enclosing /16 and serve it to the other /24s.")
}

func c03R12(c *Ctx) { c03R12as(c, "C03-R12") }

func c03R12as(c *Ctx, R string) {
	c.Doc(R, "every function that produces the scope of a scoped insert (the netip.Prefix handed to Store.SetFromResponseScoped, walked back through helpers; today ecs.(*Policy).ClampScope) builds prefixes only with lengths that originate from netip.Prefix.Bits() / netip.Addr.BitLen() — the authority's SCOPE or the query's SOURCE — so a configured floor (Policy.MinScopeV4/V6) can refuse a scope but can never re-label an answer for a wider audience than the authority declared (RFC 7871 §7.3.1)")
	setScoped := c.fobj(R, c03Pkg+".(*Store).SetFromResponseScoped")
	addrPrefix := c.fobj(R, "net/netip.Addr.Prefix")
	prefixFrom := c.fobj(R, "net/netip.PrefixFrom")
	pbits := c.fobj(R, "net/netip.Prefix.Bits")
	bitLen := c.fobj(R, "net/netip.Addr.BitLen")
	if setScoped == nil || addrPrefix == nil || prefixFrom == nil || pbits == nil || bitLen == nil {
		return
	}
	isPrefixT := func(t types.Type) bool {
		n, ok := t.(*types.Named)
		return ok && n.Obj().Name() == "Prefix" && n.Obj().Pkg() != nil && n.Obj().Pkg().Path() == "net/netip"
	}
	scopeIdx := -1
	if sig, ok := setScoped.Type().(*types.Signature); ok {
		for i := 0; i < sig.Params().Len(); i++ {
			if isPrefixT(sig.Params().At(i).Type()) {
				if scopeIdx >= 0 {
					scopeIdx = -2
					break
				}
				scopeIdx = i + 1
			}
		}
	}
	if scopeIdx < 0 {
		c.unresolved(R, "SetFromResponseScoped", "expected exactly one netip.Prefix parameter (the scope)")
		return
	}

	byObj := map[*types.Func]*ssa.Function{}
	for _, f := range c.P.RepoFuncs() {
		if f.Parent() != nil {
			continue
		}
		if o := funcObjOf(f); o != nil {
			byObj[o] = f
		}
	}

	// 1. producers
	producers := map[*ssa.Function]bool{}
	var fromValue func(v ssa.Value, depth int)
	var addProducer func(p *ssa.Function, depth int)
	fromValue = func(v ssa.Value, depth int) {
		if v == nil || depth > 4 {
			return
		}
		for _, l := range Origins(Desc(v), nil) {
			l = strip(l)
			if l == nil {
				continue
			}
			switch l.K {
			case ECall, EExtract:
				call := l
				if l.K == EExtract {
					call = strip(l.X)
				}
				if call == nil || call.Fn == nil {
					continue
				}
				if p := byObj[call.Fn.Origin()]; p != nil {
					addProducer(p, depth+1)
				}
			case EParam:
				// the scope travels through a parameter of an unexported helper
				par, _ := l.V.(*ssa.Parameter)
				if par == nil || l.Idx < 0 {
					continue
				}
				h := par.Parent()
				fo := funcObjOf(h)
				if h == nil || h.Parent() != nil || fo == nil || fo.Exported() {
					continue
				}
				for _, s := range c.CallSites(fo) {
					if s.Kind == "call" {
						fromValue(callArg(s.Instr, l.Idx), depth+1)
					}
				}
			}
		}
	}
	addProducer = func(p *ssa.Function, depth int) {
		if producers[p] {
			return
		}
		// only functions that hand out a netip.Prefix
		sig := p.Signature
		has := false
		for i := 0; i < sig.Results().Len(); i++ {
			if isPrefixT(sig.Results().At(i).Type()) {
				has = true
			}
		}
		if !has {
			return
		}
		producers[p] = true
		for _, b := range p.Blocks {
			for _, in := range b.Instrs {
				r, ok := in.(*ssa.Return)
				if !ok {
					continue
				}
				for _, res := range r.Results {
					if isPrefixT(res.Type()) {
						fromValue(res, depth)
					}
				}
			}
		}
	}
	nSites := 0
	for _, s := range c.CallSites(setScoped) {
		nSites++
		if s.Kind != "call" {
			c.violation(R, fmt.Sprintf("%s|%s|scoped insert used as a value", R, fnKey(TopLevel(s.Fn))), instrPos(s.Instr), "the scoped insert is used as a "+s.Kind+": the producer of its scope cannot be discovered")
			continue
		}
		fromValue(callArg(s.Instr, scopeIdx), 0)
	}
	if nSites == 0 {
		c.unresolved(R, "SetFromResponseScoped", "no call site of the scoped insert found")
		return
	}
	if len(producers) == 0 {
		c.unresolved(R, "scope producers", "no module function producing the scope of a scoped insert was found (expected ecs.(*Policy).ClampScope or its successor)")
		return
	}

	// 2. lengths inside the producers
	var plist []*ssa.Function
	for p := range producers {
		plist = append(plist, p)
	}
	sort.Slice(plist, func(i, j int) bool { return fnKey(plist[i]) < fnKey(plist[j]) })
	allowed := []Pat{CallTo(pbits), CallTo(bitLen)}
	built := 0
	for _, p := range plist {
		calls := instrsInScope(p, isPlainCallTo(addrPrefix, prefixFrom))
		key := fmt.Sprintf("%s|%s|length of the produced scope is a declared prefix length", R, fnKey(p))
		if len(calls) == 0 {
			c.ok(R, key, p.Pos(), "produces a cache-key scope without constructing a prefix (hands on what it was given, or nothing)")
			continue
		}
		// (b) the ADDRESS of the produced scope comes from one declared prefix: every
		// parameter the address operand of a prefix constructor can be traced back to
		// is one and the same — an address selected between two prefixes (the
		// authority's SCOPE here, the query's SOURCE there) re-labels the answer for
		// the other prefix's audience
		akey := fmt.Sprintf("%s|%s|address of the produced scope comes from one declared prefix", R, fnKey(p))
		roots := map[ssa.Value]bool{}
		var rootsOf func(e *Expr, d int)
		rootsOf = func(e *Expr, d int) {
			if e == nil || d > 6 {
				return
			}
			for _, l := range Origins(e, nil) {
				l = strip(l)
				if l == nil {
					continue
				}
				switch l.K {
				case EParam:
					if l.V != nil {
						roots[l.V] = true
					}
				case ECall:
					if len(l.Args) > 0 {
						rootsOf(l.Args[0], d+1)
					}
				}
			}
		}
		for _, in := range calls {
			if a := callArg(in, 0); a != nil {
				rootsOf(Desc(a), 0)
			}
		}
		if len(roots) > 1 {
			var names []string
			for v := range roots {
				names = append(names, v.Name())
			}
			sort.Strings(names)
			c.violation(R, akey, calls[0].Pos(), fmt.Sprintf("the address of the prefix built here is taken from more than one parameter (%v): depending on the branch the answer is filed under another declared prefix's address — e.g. under the query's SOURCE although the authority scoped it to a different subnet", names))
		} else {
			c.ok(R, akey, calls[0].Pos(), "the address operand of every prefix built here traces back to at most one parameter")
		}
		for _, in := range calls {
			built++
			c.OriginCheckThroughCallers(R, key, in,
				"length of a prefix built where the scope of a scoped insert is produced (allowed: netip.Prefix.Bits() of the authority's SCOPE / the query's SOURCE, netip.Addr.BitLen(); a configured or constant length re-labels the answer for another audience)",
				callArg(in, 1), nil, allowed...)
		}
	}
	if built == 0 {
		c.unresolved(R, "scope producers|prefix construction", "none of the discovered producers builds a prefix — the rule no longer looks at the code that chooses the key scope's length")
	}
	c.Floor(R, 1)
}
