package main

import (
	"fmt"
	"go/token"
	"go/types"
	"sort"
	"strings"

	"golang.org/x/tools/go/ssa"
)

type Status string

const (
	StOK         Status = "ok"
	StViolation  Status = "violation"
	StUndecided  Status = "undecided"
	StUnresolved Status = "unresolved"
)

// Result is one decided obligation (rule instance × site).
type Result struct {
	Rule   string `json:"rule"`
	Key    string `json:"key"`
	Status Status `json:"status"`
	Pos    string `json:"pos"`
	Msg    string `json:"msg"`
	Config string `json:"config,omitempty"`
}

// Ctx carries one property run over one loaded program.
type Ctx struct {
	P        *Prog
	Prop     string
	Config   string
	Results  []Result
	idx      *index
	Notes    []string
	ruleDocs map[string]string
	floors   map[string]int
	counts   map[string]int
}

func NewCtx(p *Prog, prop, config string) *Ctx {
	return &Ctx{P: p, Prop: prop, Config: config, ruleDocs: map[string]string{}, floors: map[string]int{}, counts: map[string]int{}}
}

func (c *Ctx) add(rule, key string, st Status, pos token.Pos, msg string) {
	c.Results = append(c.Results, Result{Rule: rule, Key: key, Status: st, Pos: c.P.pos(pos), Msg: msg, Config: c.Config})
	c.counts[rule]++
}
func (c *Ctx) ok(rule, key string, pos token.Pos, msg string) { c.add(rule, key, StOK, pos, msg) }
func (c *Ctx) violation(rule, key string, pos token.Pos, msg string) {
	c.add(rule, key, StViolation, pos, msg)
}
func (c *Ctx) undecided(rule, key string, pos token.Pos, msg string) {
	c.add(rule, key, StUndecided, pos, msg)
}
func (c *Ctx) unresolved(rule, what, msg string) {
	c.add(rule, rule+"|"+what, StUnresolved, token.NoPos, what+": "+msg)
}

// Doc records the one-line statement of a rule (goes to evidence).
func (c *Ctx) Doc(rule, text string) { c.ruleDocs[rule] = text }

// Floor: the rule must have produced at least n obligations (confirmed by
// reading today's tree) — a rule that matches nothing must not pass vacuously.
func (c *Ctx) Floor(rule string, n int) { c.floors[rule] = n }

func (c *Ctx) checkFloors() {
	var rules []string
	for r := range c.floors {
		rules = append(rules, r)
	}
	sort.Strings(rules)
	for _, r := range rules {
		if c.counts[r] < c.floors[r] {
			c.add(r, r+"|floor", StUnresolved, token.NoPos, fmt.Sprintf("rule produced %d obligations, floor confirmed by reading is %d", c.counts[r], c.floors[r]))
		}
	}
}

// ---------------------------------------------------------------------------
// resolution helpers that record unresolved anchors

func (c *Ctx) fn(rule, path string) *ssa.Function {
	f := c.P.Func(path)
	if f == nil {
		c.unresolved(rule, path, "anchor function not found")
	}
	return f
}

func (c *Ctx) fobj(rule, path string) *types.Func {
	f := c.P.FuncObj(path)
	if f == nil {
		c.unresolved(rule, path, "anchor function object not found")
	}
	return f
}

func (c *Ctx) fobjs(rule string, paths ...string) []*types.Func {
	var out []*types.Func
	for _, p := range paths {
		if f := c.fobj(rule, p); f != nil {
			out = append(out, f)
		}
	}
	return out
}

func (c *Ctx) field(rule, path string) *types.Var {
	f := c.P.Field(path)
	if f == nil {
		c.unresolved(rule, path, "anchor field not found")
	}
	return f
}

// ---------------------------------------------------------------------------
// E1 index: call sites, references, field stores

type Site struct {
	Fn    *ssa.Function
	Instr ssa.Instruction
	Kind  string // call | go | defer | ref | invoke | store
	Val   ssa.Value
}

type index struct {
	calls   map[*types.Func][]Site
	invokes map[string][]Site
	refs    map[*types.Func][]Site
	stores  map[*types.Var][]Site
	ssaCall map[*ssa.Function][]Site
}

func (c *Ctx) index() *index {
	if c.idx != nil {
		return c.idx
	}
	if c.P.sharedIdx != nil {
		c.idx = c.P.sharedIdx
		return c.idx
	}
	ix := &index{calls: map[*types.Func][]Site{}, invokes: map[string][]Site{}, refs: map[*types.Func][]Site{}, stores: map[*types.Var][]Site{}, ssaCall: map[*ssa.Function][]Site{}}
	for _, fn := range c.P.repoFuncs {
		for _, b := range fn.Blocks {
			for _, in := range b.Instrs {
				cc := callCommon(in)
				kind := "call"
				switch in.(type) {
				case *ssa.Go:
					kind = "go"
				case *ssa.Defer:
					kind = "defer"
				}
				if cc != nil {
					if cc.IsInvoke() {
						ix.invokes[cc.Method.Name()] = append(ix.invokes[cc.Method.Name()], Site{fn, in, "invoke", cc.Value})
					} else if fo, sf, _ := calleeObj(cc); fo != nil {
						ix.calls[fo.Origin()] = append(ix.calls[fo.Origin()], Site{fn, in, kind, nil})
					} else if sf != nil {
						ix.ssaCall[sf] = append(ix.ssaCall[sf], Site{fn, in, kind, nil})
					}
				}
				// function values used other than as the callee
				var ops []*ssa.Value
				ops = in.Operands(ops)
				for i, op := range ops {
					if op == nil || *op == nil {
						continue
					}
					f, ok := (*op).(*ssa.Function)
					if !ok {
						continue
					}
					if cc != nil && i == 0 && !cc.IsInvoke() && cc.Value == *op {
						continue
					}
					g := f
					if o := g.Origin(); o != nil {
						g = o
					}
					// bound-method wrappers and thunks point at their target
					if fo, ok := g.Object().(*types.Func); ok && fo != nil {
						ix.refs[fo.Origin()] = append(ix.refs[fo.Origin()], Site{fn, in, "ref", nil})
					}
				}
				if st, ok := in.(*ssa.Store); ok {
					if fa, ok := st.Addr.(*ssa.FieldAddr); ok {
						if s, ok := deref(fa.X.Type()).Underlying().(*types.Struct); ok {
							fv := s.Field(fa.Field).Origin()
							ix.stores[fv] = append(ix.stores[fv], Site{fn, in, "store", st.Val})
						}
					}
				}
			}
		}
	}
	c.idx = ix
	c.P.sharedIdx = ix
	return ix
}

// CallSites returns every call / go / defer / function-value reference to f in
// the module (non-test code), plus interface invocations that can dispatch to f.
func (c *Ctx) CallSites(f *types.Func) []Site {
	if f == nil {
		return nil
	}
	ix := c.index()
	var out []Site
	out = append(out, ix.calls[f.Origin()]...)
	out = append(out, ix.refs[f.Origin()]...)
	sig := f.Type().(*types.Signature)
	if sig.Recv() != nil {
		rt := sig.Recv().Type()
		for _, s := range ix.invokes[f.Name()] {
			it, ok := s.Val.Type().Underlying().(*types.Interface)
			if !ok {
				continue
			}
			if types.Implements(rt, it) || types.Implements(types.NewPointer(deref(rt)), it) {
				out = append(out, s)
			}
		}
	}
	sort.SliceStable(out, func(i, j int) bool { return instrPos(out[i].Instr) < instrPos(out[j].Instr) })
	return out
}

// StoreSites returns every store to the field in the module.
func (c *Ctx) StoreSites(fv *types.Var) []Site {
	if fv == nil {
		return nil
	}
	out := append([]Site{}, c.index().stores[fv]...)
	sort.SliceStable(out, func(i, j int) bool { return instrPos(out[i].Instr) < instrPos(out[j].Instr) })
	return out
}

// WhoMay (E1): the enclosing top-level functions of all sites must be in allow
// (key: fnKey of the top-level function → reason). Every allow entry must be
// used (a stale row is reported as unresolved so the table stays exact).
func (c *Ctx) WhoMay(rule, what string, sites []Site, allow map[string]string) {
	used := map[string]bool{}
	for _, s := range sites {
		top := fnKey(TopLevel(s.Fn))
		key := fmt.Sprintf("%s|%s|%s", rule, what, top)
		if _, ok := allow[top]; ok {
			used[top] = true
			c.ok(rule, key, instrPos(s.Instr), fmt.Sprintf("%s: %s site in %s (allowed: %s)", what, s.Kind, top, allow[top]))
		} else if rows, ok := c.whoMayRows(TopLevel(s.Fn), allow, 0, map[*ssa.Function]bool{}); ok {
			// the construct sits in an unexported helper that only allowed functions call
			for _, r := range rows {
				used[r] = true
			}
			c.ok(rule, fmt.Sprintf("%s|%s|%s", rule, what, rows[0]), instrPos(s.Instr), fmt.Sprintf("%s: %s site in helper %s, reachable only from allowed %s", what, s.Kind, top, strings.Join(rows, ", ")))
		} else {
			c.violation(rule, key, instrPos(s.Instr), fmt.Sprintf("%s: %s site in %s is not in the allowed set", what, s.Kind, top))
		}
	}
	var names []string
	for k := range allow {
		names = append(names, k)
	}
	sort.Strings(names)
	for _, k := range names {
		if !used[k] {
			c.unresolved(rule, what+"|"+k, "allowed site no longer exists (table row stale)")
		}
	}
}

// whoMayRows: the table rows a site inside f counts for when f itself is not
// listed — f must be an unexported function that is only ever called directly
// (never taken as a value), and every caller must (transitively, depth ≤ 3)
// resolve to listed functions.
func (c *Ctx) whoMayRows(f *ssa.Function, allow map[string]string, depth int, seen map[*ssa.Function]bool) ([]string, bool) {
	if f == nil || depth > 3 || seen[f] {
		return nil, false
	}
	seen[f] = true
	fo := funcObjOf(f)
	if fo == nil || fo.Exported() {
		return nil, false
	}
	sites := c.CallSites(fo)
	if len(sites) == 0 {
		return nil, false
	}
	set := map[string]bool{}
	for _, s := range sites {
		if s.Kind != "call" && s.Kind != "defer" && s.Kind != "go" {
			return nil, false
		}
		top := TopLevel(s.Fn)
		k := fnKey(top)
		if _, ok := allow[k]; ok {
			set[k] = true
			continue
		}
		rows, ok := c.whoMayRows(top, allow, depth+1, seen)
		if !ok {
			return nil, false
		}
		for _, r := range rows {
			set[r] = true
		}
	}
	var out []string
	for k := range set {
		out = append(out, k)
	}
	sort.Strings(out)
	return out, len(out) > 0
}

// ---------------------------------------------------------------------------
// E4 origins

// Origins walks e back through phis, cells, conversions and the calls listed
// as transparent (returning which argument indices to follow) to leaf producers.
func Origins(e *Expr, transparent func(*Expr) []int) []*Expr {
	var out []*Expr
	seen := map[*Expr]bool{}
	var walk func(e *Expr, d int)
	walk = func(e *Expr, d int) {
		if e == nil || seen[e] || d > 60 {
			return
		}
		seen[e] = true
		switch e.K {
		case EPhi:
			for _, a := range e.Args {
				walk(a, d+1)
			}
			return
		case EAlloc:
			if len(e.Args) > 0 {
				for _, a := range e.Args {
					walk(a, d+1)
				}
				return
			}
		case EConvert, ETypeAssert:
			walk(e.X, d+1)
			return
		case EFree:
			if e.X != nil {
				walk(e.X, d+1)
				return
			}
		case EUnknown:
			if e.Name == "phi-cycle" || e.Name == "cell-cycle" {
				return // the cycle's other edges are walked by the enclosing phi
			}
		case ECall, EExtract:
			if transparent != nil {
				call := e
				if e.K == EExtract {
					call = e.X
				}
				if idxs := transparent(e); idxs != nil {
					for _, i := range idxs {
						if i < len(call.Args) {
							walk(call.Args[i], d+1)
						}
					}
					return
				}
			}
		}
		out = append(out, e)
	}
	walk(e, 0)
	return out
}

// OriginCheck (E4): every leaf origin of v must match one of allowed.
func (c *Ctx) OriginCheck(rule, key string, at ssa.Instruction, what string, v ssa.Value, transparent func(*Expr) []int, allowed ...Pat) bool {
	leaves := Origins(Desc(v), transparent)
	leaves = expandHelperLeaves(leaves, transparent, allowed, 0)
	return c.judgeOrigins(rule, key, at, what, leaves, allowed)
}

func (c *Ctx) judgeOrigins(rule, key string, at ssa.Instruction, what string, leaves []*Expr, allowed []Pat) bool {
	var bad []string
	for _, l := range leaves {
		m := false
		for _, a := range allowed {
			if a(l) {
				m = true
				break
			}
		}
		if !m {
			bad = append(bad, l.String())
		}
	}
	if len(leaves) == 0 {
		c.undecided(rule, key, instrPos(at), what+": no origin could be determined")
		return false
	}
	if len(bad) > 0 {
		c.violation(rule, key, instrPos(at), fmt.Sprintf("%s: value has origin(s) outside the allowed producers: %s", what, strings.Join(bad, " ; ")))
		return false
	}
	var ls []string
	for _, l := range leaves {
		ls = append(ls, l.String())
	}
	c.ok(rule, key, instrPos(at), fmt.Sprintf("%s: origins {%s}", what, trunc(strings.Join(ls, " ; "), 300)))
	return true
}

// OriginCheckThroughCallers is OriginCheck for a use that may have been extracted
// into a helper: a leaf origin that is a parameter of an unexported function which
// is only ever *called* (never taken as a value, never reached through an interface)
// is replaced by the origins of the matching argument at every one of its call sites
// (transitively, depth ≤ 3).  A parameter that already matches an allowed pattern,
// and a parameter of any other function, stays a leaf.
func (c *Ctx) OriginCheckThroughCallers(rule, key string, at ssa.Instruction, what string, v ssa.Value, transparent func(*Expr) []int, allowed ...Pat) bool {
	leaves := Origins(Desc(v), transparent)
	leaves = expandHelperLeaves(leaves, transparent, allowed, 0)
	leaves = c.expandParamLeaves(leaves, transparent, allowed, 0)
	return c.judgeOrigins(rule, key, at, what, leaves, allowed)
}

func (c *Ctx) expandParamLeaves(leaves []*Expr, transparent func(*Expr) []int, allowed []Pat, depth int) []*Expr {
	if depth > 3 {
		return leaves
	}
	var out []*Expr
	for _, l := range leaves {
		ok := false
		for _, a := range allowed {
			if a(l) {
				ok = true
				break
			}
		}
		p, _ := l.V.(*ssa.Parameter)
		if ok || l.K != EParam || p == nil || l.Idx < 0 {
			out = append(out, l)
			continue
		}
		h := p.Parent()
		fo := funcObjOf(h)
		if h == nil || h.Parent() != nil || fo == nil || fo.Exported() {
			out = append(out, l)
			continue
		}
		sites := c.CallSites(fo)
		var sub []*Expr
		direct := len(sites) > 0
		for _, s := range sites {
			cc := callCommon(s.Instr)
			if (s.Kind != "call" && s.Kind != "defer" && s.Kind != "go") || cc == nil || cc.IsInvoke() || l.Idx >= len(cc.Args) {
				direct = false
				break
			}
			sub = append(sub, Origins(Desc(cc.Args[l.Idx]), transparent)...)
		}
		if !direct || len(sub) == 0 {
			out = append(out, l)
			continue
		}
		sub = expandHelperLeaves(sub, transparent, allowed, 0)
		out = append(out, c.expandParamLeaves(sub, transparent, allowed, depth+1)...)
	}
	return out
}

func trunc(s string, n int) string {
	if len(s) > n {
		return s[:n] + "…"
	}
	return s
}

// callArg returns argument i of a call-like instruction counting the receiver
// of static method calls as argument 0 (as go/ssa does).
func callArg(in ssa.Instruction, i int) ssa.Value {
	cc := callCommon(in)
	if cc == nil {
		return nil
	}
	if cc.IsInvoke() {
		if i == 0 {
			return cc.Value
		}
		i--
	}
	if i < len(cc.Args) {
		return cc.Args[i]
	}
	return nil
}

// expandHelperLeaves: a leaf origin that is the result of an unexported
// same-package helper (a computation extracted into its own function) and is
// not itself an allowed producer is replaced by the origins of what the helper
// returns; the helper's parameters resolve to the call's arguments.
func expandHelperLeaves(leaves []*Expr, transparent func(*Expr) []int, allowed []Pat, depth int) []*Expr {
	if depth > 3 {
		return leaves
	}
	var out []*Expr
	for _, l := range leaves {
		ok := false
		for _, a := range allowed {
			if a(l) {
				ok = true
				break
			}
		}
		if ok || (l.K != ECall && l.K != EExtract) {
			out = append(out, l)
			continue
		}
		call, idx := l, 0
		if l.K == EExtract {
			call, idx = l.X, l.Idx
		}
		cv, _ := call.V.(*ssa.Call)
		if cv == nil {
			out = append(out, l)
			continue
		}
		h := localHelper(cv.Parent(), &cv.Call)
		if h == nil || len(h.Blocks) == 0 {
			out = append(out, l)
			continue
		}
		var sub []*Expr
		n := 0
		for _, b := range h.Blocks {
			for _, in := range b.Instrs {
				r, isRet := in.(*ssa.Return)
				if !isRet || idx >= len(r.Results) {
					continue
				}
				n++
				for _, rl := range Origins(Desc(r.Results[idx]), transparent) {
					if rl.K == EParam && rl.Idx >= 0 && rl.Idx < len(cv.Call.Args) {
						sub = append(sub, Origins(Desc(cv.Call.Args[rl.Idx]), transparent)...)
					} else {
						sub = append(sub, rl)
					}
				}
			}
		}
		if n == 0 {
			out = append(out, l)
			continue
		}
		out = append(out, expandHelperLeaves(sub, transparent, allowed, depth+1)...)
	}
	return out
}
