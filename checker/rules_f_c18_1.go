package main

// C18-R10 (finding F-C18-1) — the stored list is the listed names, never "the
// listed names minus what something else already covers".
//
// BlockList.Exists (and matchHierarchy over the block tables) is the QUERY
// predicate: it answers "is this name blocked by itself, a parent or a
// wildcard parent".  Whether a name is *stored* must not depend on that
// answer: the API mutators store unconditionally, the snapshot writes
// everything that is stored, and a loader that skips a line because an earlier
// line covers it reloads less than was saved (and what it keeps depends on the
// line order).  Structurally: no insertion into BlockList.m / BlockList.wild —
// the map write itself, or a call of a package function that reaches one — is
// control-dependent on a branch whose condition derives from the coverage
// predicate.  The whitelist test matchHierarchy(key, b.w) is a different atom
// (C18-R6 requires it) and is not touched by this rule.
//
// Control dependence is read off the CFG: the insertion I depends on the branch
// A when one successor of A cannot reach a function exit without executing I
// while the other can.  Nothing is executed.

import (
	"fmt"
	"go/types"

	"golang.org/x/tools/go/ssa"
)

func init() {
	wrap := func(id string, extra func(c *Ctx), explain string) {
		pd := props[id]
		if pd == nil {
			return
		}
		orig := pd.Run
		pd.Run = func(c *Ctx) { orig(c); extra(c) }
		pd.Explanation += " " + explain
	}
	wrap("C18", c18R10, "R10 (added, F-C18-1): no insertion into the block tables is control-dependent on the coverage predicate (Exists / matchHierarchy over m or wild) — every listed name is stored whether or not another entry covers it, so the saved list reloads to itself and does not depend on line order.")
}

func c18R10(c *Ctx) {
	const R = "C18-R10"
	const pkg = "middleware/blocklist"
	c.Doc(R, "package blocklist: no store into BlockList.m / BlockList.wild (the map write, or a call of a package function that reaches one: setLocked, set, a loader helper) is control-dependent on a branch whose condition derives from BlockList.Exists or from matchHierarchy over m/wild — whether a name is stored never depends on whether another entry covers it (API mutators store unconditionally and the snapshot writes every stored name, so a covering-dependent loader reloads less than was saved)")
	mF := c.field(R, pkg+".BlockList.m")
	wildF := c.field(R, pkg+".BlockList.wild")
	exists := c.fobj(R, pkg+".(*BlockList).Exists")
	mh := c.fobj(R, pkg+".matchHierarchy")
	if mF == nil || wildF == nil || exists == nil || mh == nil {
		return
	}
	fns := c.P.FuncsInPkg(pkg)

	// --- storers: functions that reach a map write on m / wild
	isTableWrite := func(in ssa.Instruction) bool {
		mu, ok := in.(*ssa.MapUpdate)
		return ok && FieldIs(mF, wildF)(Desc(mu.Map))
	}
	storer := map[*ssa.Function]bool{}
	for _, f := range fns {
		for _, b := range f.Blocks {
			for _, in := range b.Instrs {
				if isTableWrite(in) {
					storer[f] = true
				}
			}
		}
	}
	calleeIn := func(in ssa.Instruction, set map[*ssa.Function]bool) *ssa.Function {
		cc := callCommon(in)
		if cc == nil {
			return nil
		}
		if sf := cc.StaticCallee(); sf != nil && set[sf] {
			return sf
		}
		return nil
	}
	for changed := true; changed; {
		changed = false
		for _, f := range fns {
			if storer[f] {
				continue
			}
			for _, b := range f.Blocks {
				for _, in := range b.Instrs {
					if calleeIn(in, storer) != nil {
						storer[f] = true
						changed = true
					}
				}
			}
		}
	}

	// --- coverage predicate: Exists, matchHierarchy(_, b.m|b.wild), or a package
	// function whose result derives from one of those
	var covFns map[*ssa.Function]bool
	covAtom := func(e *Expr) bool {
		if CallTo(exists)(e) {
			return true
		}
		if CallTo(mh)(e) {
			x := strip(e)
			if x.K == EExtract {
				x = strip(x.X)
			}
			return x != nil && len(x.Args) == 2 && FieldIs(mF, wildF)(x.Args[1])
		}
		x := strip(e)
		if x != nil && x.K == EExtract {
			x = strip(x.X)
		}
		if x != nil && x.K == ECall && x.SFn != nil && covFns[x.SFn] {
			return true
		}
		return false
	}
	covFns = map[*ssa.Function]bool{}
	for changed := true; changed; {
		changed = false
		for _, f := range fns {
			if covFns[f] || f.Signature.Results().Len() == 0 {
				continue
			}
			if fo := funcObjOf(f); fo != nil && (sameFunc(fo, exists) || sameFunc(fo, mh)) {
				continue
			}
			for _, b := range f.Blocks {
				for _, in := range b.Instrs {
					r, ok := in.(*ssa.Return)
					if !ok {
						continue
					}
					for _, v := range r.Results {
						if bt, ok := v.Type().Underlying().(*types.Basic); !ok || bt.Kind() != types.Bool {
							continue
						}
						if Contains(covAtom)(Desc(v)) && !covFns[f] {
							covFns[f] = true
							changed = true
						}
					}
				}
			}
		}
	}

	// exit reachable from the entry of block `from` without executing `avoid`
	exitAvoiding := func(from *ssa.BasicBlock, avoid ssa.Instruction) bool {
		seen := map[*ssa.BasicBlock]bool{}
		q := []*ssa.BasicBlock{from}
		for len(q) > 0 {
			b := q[0]
			q = q[1:]
			if seen[b] {
				continue
			}
			seen[b] = true
			stopped := false
			for _, in := range b.Instrs {
				if in == avoid {
					stopped = true
					break
				}
				if _, ok := in.(*ssa.Return); ok {
					return true
				}
			}
			if !stopped {
				q = append(q, b.Succs...)
			}
		}
		return false
	}

	n := 0
	for _, f := range fns {
		// insertions in f
		var ins []ssa.Instruction
		for _, b := range f.Blocks {
			for _, in := range b.Instrs {
				if isTableWrite(in) || calleeIn(in, storer) != nil {
					ins = append(ins, in)
				}
			}
		}
		if len(ins) == 0 {
			continue
		}
		// branches on the coverage predicate in f
		var brs []*ssa.If
		for _, b := range f.Blocks {
			if len(b.Instrs) == 0 {
				continue
			}
			if iff, ok := b.Instrs[len(b.Instrs)-1].(*ssa.If); ok && Contains(covAtom)(condOf(iff)) {
				brs = append(brs, iff)
			}
		}
		for _, in := range ins {
			what := "map write"
			if sf := calleeIn(in, storer); sf != nil {
				what = sf.Name()
			}
			key := fmt.Sprintf("%s|%s|%s independent of coverage", R, fnKey(f), what)
			n++
			var dep *ssa.If
			for _, iff := range brs {
				b := iff.Block()
				if len(b.Succs) != 2 {
					continue
				}
				e0 := exitAvoiding(b.Succs[0], in)
				e1 := exitAvoiding(b.Succs[1], in)
				if e0 != e1 {
					dep = iff
					break
				}
			}
			if dep != nil {
				c.violation(R, key, instrPos(in), fmt.Sprintf("the insertion is executed or skipped according to the coverage predicate (%s): a name that another entry already covers is not stored, so the stored list depends on line order and a saved list holding parent and child/wildcard together reloads to less than was saved", trunc(condOf(dep).String(), 120)))
			} else {
				c.ok(R, key, instrPos(in), "stored whether or not another entry covers the name")
			}
		}
	}
	if n == 0 {
		c.unresolved(R, "insertions", "no store into BlockList.m / BlockList.wild found in the package")
	}
}
