package main

func init() {
	addMutants("C18", []Mutant{
		{ID: "f-c18-2-loader-reads-persist-temp", File: "middleware/blocklist/updater.go", Expect: "C18-R11|(*middleware/blocklist.BlockList).readBlocklists|parseHostFile behind the persist-temp name filter",
			Old: "\t\t\tif strings.HasPrefix(f.Name(), persistTempPrefix) {\n\t\t\t\treturn nil\n\t\t\t}\n",
			New: "",
			Why: "re-introduces F-C18-2: the walk feeds local.tmp.NNN (interrupted or in-flight save) to parseHostFile"},
		{ID: "f-c18-2-temp-pattern-drifts", File: "middleware/blocklist/blocklist.go", Expect: "C18-R11|(*middleware/blocklist.BlockList).readBlocklists|parseHostFile behind the persist-temp name filter",
			Old: "os.CreateTemp(b.cfg.BlockListDir, persistTempPrefix+\"*\")",
			New: "os.CreateTemp(b.cfg.BlockListDir, \"local.*.tmp\")",
			Why: "the two tables disagree: persist names its temp files local.NNN.tmp, the loader still filters local.tmp.* — the remnant is read as a list (and only then deleted by the .tmp sweep)"},
		{ID: "f-c18-2-filter-swallows-local", File: "middleware/blocklist/updater.go", Expect: "C18-R11|loader|name filter keeps the destination file",
			Old: "\t\t\tif strings.HasPrefix(f.Name(), persistTempPrefix) {\n",
			New: "\t\t\tif strings.HasPrefix(f.Name(), \"local\") {\n",
			Why: "an over-broad filter: the persisted file `local` itself is skipped, API-added entries never come back after a restart"},
	})
}
