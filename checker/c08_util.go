package main

// Helpers shared by the C08 and C04 rule files: E11 min-fold checkers over
// SSA (phi form, loop accumulators, cells/fields, "returns the smaller
// parameter"), and edge-level guard reachability.

import (
	"fmt"
	"go/token"
	"go/types"
	"sort"
	"strings"

	"golang.org/x/tools/go/ssa"
)

// c08SameAs matches expressions that denote the same value as ref: the same
// SSA value, or (no CSE in go/ssa) an identical canonical description.
func c08SameAs(ref *Expr) Pat {
	rs := strip(ref)
	rstr := ""
	if rs != nil {
		rstr = rs.String()
	}
	return func(e *Expr) bool {
		e = strip(e)
		if e == nil || rs == nil {
			return false
		}
		if e.V != nil && rs.V != nil && e.V == rs.V {
			return true
		}
		return rstr != "" && rstr != "?" && e.String() == rstr
	}
}

// c08AnyOfExprs matches when the expression is the same value as one of refs.
func c08AnyOfExprs(refs []*Expr) Pat {
	var ps []Pat
	for _, r := range refs {
		ps = append(ps, c08SameAs(r))
	}
	return AnyOf(ps...)
}

func c08IsTime(t types.Type) bool {
	n, ok := t.(*types.Named)
	return ok && n.Obj().Pkg() != nil && n.Obj().Pkg().Path() == "time" && n.Obj().Name() == "Time"
}

func c08TimeMethod(name string, x, y Pat) Pat {
	return func(e *Expr) bool {
		e = strip(e)
		if e == nil || e.K != ECall || e.Fn == nil || e.Fn.Name() != name || len(e.Args) != 2 {
			return false
		}
		if e.Fn.Pkg() == nil || e.Fn.Pkg().Path() != "time" {
			return false
		}
		return x(e.Args[0]) && y(e.Args[1])
	}
}

// c08LE returns the branch edges on which "x <= y" is established (x is not
// later / not larger than y): for time.Time x.Before(y)=true, y.After(x)=true,
// y.Before(x)=false, x.After(y)=false; for ordered scalars x<y, x<=y (and the
// mirrored / negated forms recognised by OnCmp).
func c08LE(x, y Pat) []Barrier {
	return []Barrier{
		OnTrue("x.Before(y)", c08TimeMethod("Before", x, y)),
		OnTrue("y.After(x)", c08TimeMethod("After", y, x)),
		OnFalse("y.Before(x)", c08TimeMethod("Before", y, x)),
		OnFalse("x.After(y)", c08TimeMethod("After", x, y)),
		OnCmp("x<y", x, token.LSS, y, true),
		OnCmp("x<=y", x, token.LEQ, y, true),
	}
}

// c08LT is the strict subset of c08LE (x strictly smaller / earlier).
func c08LT(x, y Pat) []Barrier {
	return []Barrier{
		OnTrue("x.Before(y)", c08TimeMethod("Before", x, y)),
		OnTrue("y.After(x)", c08TimeMethod("After", y, x)),
		OnCmp("x<y", x, token.LSS, y, true),
	}
}

// c08EdgeGuarded: the CFG edge P→S can only be taken after crossing one of
// bars (either the edge itself is a barrier edge, or P's terminator is
// unreachable from the function entry in the CFG minus barriers).
func (c *Ctx) c08EdgeGuarded(P, S *ssa.BasicBlock, bars []Barrier) (bool, string) {
	if len(P.Instrs) == 0 {
		return false, ""
	}
	term := P.Instrs[len(P.Instrs)-1]
	if iff, ok := term.(*ssa.If); ok {
		cond := condOf(iff)
		n, blocked := 0, 0
		for k, s := range P.Succs {
			if s != S {
				continue
			}
			n++
			for _, b := range bars {
				if b.Edge == nil {
					continue
				}
				if m, which := b.Edge(cond); m && which == k {
					blocked++
					break
				}
			}
		}
		if n > 0 && blocked == n {
			return true, ""
		}
	}
	ug, tr := c.unguarded(term, bars, TopLevel(P.Parent()))
	return !ug, tr
}

func c08Available(v ssa.Value, at *ssa.BasicBlock) bool {
	in, ok := v.(ssa.Instruction)
	if !ok {
		return true // parameter, constant, global, free variable
	}
	b := in.Block()
	if b == nil {
		return true
	}
	return b == at || b.Dominates(at)
}

func c08ShortVal(v ssa.Value) string { return trunc(Desc(v).String(), 120) }

// MinFoldPhi (E11, straight-line form): the phi merges alternatives of one
// quantity and must yield their minimum: for every incoming edge (pred P,
// value v) and every other incoming value u, "v <= u" must be established on
// the way to that edge (u is matched by SSA value or by canonical description,
// so a re-loaded field counts).  When u is not available at P (its definition
// does not dominate P — the candidate does not apply on that path, e.g. no DS
// ⇒ no DS bound) and no comparison is found, the pair is skipped, unless skip
// barriers are given: then the edge must be guarded by one of them (the only
// legitimate reason for not applying the candidate, e.g. cutUntil.IsZero()).
// Returns the number of (edge, other) pairs decided.
func (c *Ctx) c08MinFoldPhi(rule, key string, phi *ssa.Phi, what string, skip ...Barrier) int {
	fn := phi.Parent()
	n := 0
	distinct := []ssa.Value{}
	seen := map[ssa.Value]bool{}
	for _, v := range phi.Edges {
		if !seen[v] {
			seen[v] = true
			distinct = append(distinct, v)
		}
	}
	if len(distinct) < 2 {
		c.undecided(rule, key, phi.Pos(), what+": phi has a single incoming value — not a fold")
		return 0
	}
	bad := false
	for i, v := range phi.Edges {
		P := phi.Block().Preds[i]
		for _, u := range distinct {
			if u == v {
				continue
			}
			bars := c08LE(c08SameAs(Desc(v)), c08SameAs(Desc(u)))
			ok, tr := c.c08EdgeGuarded(P, phi.Block(), bars)
			if ok {
				n++
				continue
			}
			if !c08Available(u, P) {
				if len(skip) == 0 {
					continue
				}
				n++
				if ok2, tr2 := c.c08EdgeGuarded(P, phi.Block(), skip); !ok2 {
					bad = true
					c.violation(rule, key, instrPos(P.Instrs[len(P.Instrs)-1]), fmt.Sprintf("%s in %s: keeps %s without applying the bound %s, on a path that is not behind the only allowed bypass {%s}; path %s", what, fnKey(fn), c08ShortVal(v), c08ShortVal(u), c08BarNames(skip), tr2))
				}
				continue
			}
			n++
			bad = true
			c.violation(rule, key, instrPos(P.Instrs[len(P.Instrs)-1]), fmt.Sprintf("%s in %s: takes %s while %s is available, without a comparison establishing that the taken value is the smaller one; path %s", what, fnKey(fn), c08ShortVal(v), c08ShortVal(u), tr))
		}
	}
	if n == 0 {
		c.undecided(rule, key, phi.Pos(), what+": no comparable pair of alternatives found")
		return 0
	}
	if !bad {
		c.ok(rule, key, phi.Pos(), fmt.Sprintf("%s in %s: every alternative is taken only behind a comparison that makes it the minimum (%d edge/alternative pairs)", what, fnKey(fn), n))
	}
	return n
}

func c08BarNames(bs []Barrier) string {
	var ns []string
	for _, b := range bs {
		ns = append(ns, b.Name)
	}
	return strings.Join(ns, " | ")
}

// c08PhiFamily returns the phis transitively reachable from v through phi
// edges (the SSA incarnations of one accumulator variable).
func c08PhiFamily(v ssa.Value) map[*ssa.Phi]bool {
	fam := map[*ssa.Phi]bool{}
	var walk func(v ssa.Value)
	walk = func(v ssa.Value) {
		p, ok := v.(*ssa.Phi)
		if !ok || fam[p] {
			return
		}
		fam[p] = true
		for _, e := range p.Edges {
			walk(e)
		}
	}
	walk(v)
	return fam
}

// c08Entry is one place where a new (non-accumulator) value enters a phi family.
type c08Entry struct {
	Phi  *ssa.Phi
	Pred *ssa.BasicBlock
	Val  ssa.Value
}

func c08FamilyEntries(fam map[*ssa.Phi]bool) []c08Entry {
	var out []c08Entry
	for p := range fam {
		for i, e := range p.Edges {
			if q, ok := e.(*ssa.Phi); ok && fam[q] {
				continue
			}
			out = append(out, c08Entry{p, p.Block().Preds[i], e})
		}
	}
	sort.SliceStable(out, func(i, j int) bool {
		a, b := out[i], out[j]
		if a.Pred.Index != b.Pred.Index {
			return a.Pred.Index < b.Pred.Index
		}
		return a.Phi.Block().Index < b.Phi.Block().Index
	})
	return out
}

// MinFoldAccum (E11, accumulator form): acc is (an SSA incarnation of) a
// variable updated in a loop or a chain of ifs.  Every value entering the
// family other than an initial value (isInit) must enter on an edge guarded
// by "candidate < accumulator" (any incarnation of the accumulator), or by
// one of the extra barriers (e.g. "first element" edges).  Returns the
// candidates found (for coverage checks by the caller).
func (c *Ctx) c08MinFoldAccum(rule, key string, acc ssa.Value, what string, isInit Pat, extra ...Barrier) []*Expr {
	fam := c08PhiFamily(acc)
	if len(fam) == 0 {
		c.undecided(rule, key, acc.Pos(), what+": value is not an accumulator (no phi)")
		return nil
	}
	var famExprs []*Expr
	for p := range fam {
		famExprs = append(famExprs, &Expr{K: EPhi, V: p})
	}
	isAcc := func(e *Expr) bool {
		e = strip(e)
		if e == nil || e.V == nil {
			return false
		}
		p, ok := e.V.(*ssa.Phi)
		return ok && fam[p]
	}
	var cands []*Expr
	bad := false
	nInit := 0
	var fn *ssa.Function
	for _, en := range c08FamilyEntries(fam) {
		fn = en.Phi.Parent()
		ve := Desc(en.Val)
		if isInit != nil && isInit(ve) {
			nInit++
			continue
		}
		cands = append(cands, ve)
		bars := append(c08LT(c08SameAs(ve), isAcc), extra...)
		if ok, tr := c.c08EdgeGuarded(en.Pred, en.Phi.Block(), bars); !ok {
			bad = true
			c.violation(rule, key, instrPos(en.Pred.Instrs[len(en.Pred.Instrs)-1]), fmt.Sprintf("%s in %s: %s is assigned to the accumulator without the guard candidate < accumulator — the value can grow; path %s", what, fnKey(fn), trunc(ve.String(), 160), tr))
		}
	}
	if len(cands) == 0 {
		c.violation(rule, key, acc.Pos(), what+": accumulator has no folded candidate")
		return nil
	}
	if !bad {
		var cs []string
		for _, e := range cands {
			cs = append(cs, trunc(e.String(), 80))
		}
		c.ok(rule, key, acc.Pos(), fmt.Sprintf("%s in %s: min-fold, %d initial value(s), candidates {%s} each behind candidate < accumulator", what, fnKey(fn), nInit, strings.Join(cs, " ; ")))
	}
	return cands
}

// c08ReturnsSmallerParam (E11, function form): fn returns (result #idx) only
// parameters from the pair (pa, pb), and a return of one of them is reachable
// only across an edge establishing it is not larger than the other, or across
// "the other is zero (= unbounded)" when zeroIsUnbounded.
func (c *Ctx) c08ReturnsSmallerParam(rule string, fn *ssa.Function, idx int, pa, pb string, zeroIsUnbounded bool) {
	if fn == nil {
		c.unresolved(rule, "min function", "function not found")
		return
	}
	isP := func(name string) Pat {
		return func(e *Expr) bool { e = strip(e); return e != nil && e.K == EParam && e.Name == name }
	}
	n := 0
	for _, b := range fn.Blocks {
		for _, in := range b.Instrs {
			r, ok := in.(*ssa.Return)
			if !ok || idx >= len(r.Results) {
				continue
			}
			n++
			e := strip(Desc(r.Results[idx]))
			key := fmt.Sprintf("%s|%s|returns the smaller of %s,%s", rule, fnKey(fn), pa, pb)
			var self, other string
			switch {
			case isP(pa)(e):
				self, other = pa, pb
			case isP(pb)(e):
				self, other = pb, pa
			default:
				c.undecided(rule, key, instrPos(in), fmt.Sprintf("%s returns %s, which is neither %s nor %s", fnKey(fn), trunc(e.String(), 120), pa, pb))
				continue
			}
			bars := c08LE(isP(self), isP(other))
			if zeroIsUnbounded {
				bars = append(bars, OnTrue(other+".IsZero()", func(e *Expr) bool {
					e = strip(e)
					return e != nil && e.K == ECall && e.Fn != nil && e.Fn.Name() == "IsZero" && len(e.Args) == 1 && isP(other)(e.Args[0])
				}))
			}
			if ug, tr := c.unguarded(in, bars, fn); ug {
				c.violation(rule, key, instrPos(in), fmt.Sprintf("%s returns %s on a path that does not establish %s <= %s (or %s unbounded): the result is not the minimum; path %s", fnKey(fn), self, self, other, other, tr))
			} else {
				c.ok(rule, key, instrPos(in), fmt.Sprintf("%s returns %s only where %s <= %s or %s is zero/unbounded", fnKey(fn), self, self, other, other))
			}
		}
	}
	if n == 0 {
		c.unresolved(rule, fnKey(fn), "no return found")
	}
}

// c08StoreMinFold (E11, cell/field form): every store of a value into the
// location matched by isLoc-loads (a field or captured cell) in fn is either
// an initialisation (allowed by initBars: reachable only across those edges)
// or guarded by "value < current content of the location".  storePred selects
// the stores.  Returns the stored value descriptions.
func (c *Ctx) c08StoreMinFold(rule, key string, fn *ssa.Function, what string, storePred func(ssa.Instruction) bool, isLoad Pat, initBars ...Barrier) []*Expr {
	var vals []*Expr
	for _, in := range instrsWhere(fn, storePred) {
		st, ok := in.(*ssa.Store)
		if !ok {
			continue
		}
		ve := Desc(st.Val)
		vals = append(vals, ve)
		bars := append(c08LT(c08SameAs(ve), isLoad), initBars...)
		// v = min(v, x) builtin form
		if se := strip(ve); se != nil && se.K == ECall && se.Method == "builtin.min" {
			hasSelf := false
			for _, a := range se.Args {
				if isLoad(a) {
					hasSelf = true
				}
			}
			if hasSelf {
				c.ok(rule, key, instrPos(in), what+": v = min(v, …)")
				continue
			}
		}
		if ug, tr := c.unguarded(in, bars, fn); ug {
			c.violation(rule, key, instrPos(in), fmt.Sprintf("%s in %s: stores %s without the guard value < current — the bound can grow; path %s", what, fnKey(in.Parent()), trunc(ve.String(), 160), tr))
		} else {
			c.ok(rule, key, instrPos(in), fmt.Sprintf("%s in %s: store of %s is an initialisation or behind value < current", what, fnKey(in.Parent()), trunc(ve.String(), 120)))
		}
	}
	return vals
}

// c08SecondsOf recognises time.Duration(x) * time.Second (either operand
// order) and returns x.
func c08SecondsOf(e *Expr) (*Expr, bool) {
	e = strip(e)
	if e == nil || e.K != EBin || e.Op != token.MUL {
		return nil, false
	}
	const second = int64(1000000000)
	if v, ok := constInt(e.Y); ok && v == second {
		return strip(e.X), true
	}
	if v, ok := constInt(e.X); ok && v == second {
		return strip(e.Y), true
	}
	return nil, false
}

// c08Leaves is Origins with nil transparency, de-duplicated by description.
func c08Leaves(v ssa.Value) []*Expr {
	var out []*Expr
	seen := map[string]bool{}
	for _, l := range Origins(Desc(v), nil) {
		s := l.String()
		if l.V != nil {
			s = fmt.Sprintf("%p|%s", l.V, s)
		}
		if seen[s] {
			continue
		}
		seen[s] = true
		out = append(out, l)
	}
	return out
}

func c08ExprList(es []*Expr) string {
	var ss []string
	for _, e := range es {
		ss = append(ss, trunc(e.String(), 100))
	}
	return strings.Join(ss, " ; ")
}
