package main

// Helpers shared by the C08 and C04 rule files: E11 min-fold checkers over
// SSA (phi form, loop accumulators, cells/fields, "returns the smaller
// parameter"), and edge-level guard reachability.

import (
	"fmt"
	"go/token"
	"go/types"
	"sort"
	"strings"

	"golang.org/x/tools/go/ssa"
)

// c08SameAs matches expressions that denote the same value as ref: the same
// SSA value, or (no CSE in go/ssa) an identical canonical description.
func c08SameAs(ref *Expr) Pat {
	rs := strip(ref)
	rstr := ""
	if rs != nil {
		rstr = rs.String()
	}
	return func(e *Expr) bool {
		e = strip(e)
		if e == nil || rs == nil {
			return false
		}
		if e.V != nil && rs.V != nil && e.V == rs.V {
			return true
		}
		return rstr != "" && rstr != "?" && e.String() == rstr
	}
}

// c08AnyOfExprs matches when the expression is the same value as one of refs.
func c08AnyOfExprs(refs []*Expr) Pat {
	var ps []Pat
	for _, r := range refs {
		ps = append(ps, c08SameAs(r))
	}
	return AnyOf(ps...)
}

func c08IsTime(t types.Type) bool {
	n, ok := t.(*types.Named)
	return ok && n.Obj().Pkg() != nil && n.Obj().Pkg().Path() == "time" && n.Obj().Name() == "Time"
}

func c08TimeMethod(name string, x, y Pat) Pat {
	return func(e *Expr) bool {
		e = strip(e)
		if e == nil || e.K != ECall || e.Fn == nil || e.Fn.Name() != name || len(e.Args) != 2 {
			return false
		}
		if e.Fn.Pkg() == nil || e.Fn.Pkg().Path() != "time" {
			return false
		}
		return x(e.Args[0]) && y(e.Args[1])
	}
}

// c08LE returns the branch edges on which "x <= y" is established (x is not
// later / not larger than y): for time.Time x.Before(y)=true, y.After(x)=true,
// y.Before(x)=false, x.After(y)=false; for ordered scalars x<y, x<=y (and the
// mirrored / negated forms recognised by OnCmp).
func c08LE(x, y Pat) []Barrier {
	return []Barrier{
		OnTrue("x.Before(y)", c08TimeMethod("Before", x, y)),
		OnTrue("y.After(x)", c08TimeMethod("After", y, x)),
		OnFalse("y.Before(x)", c08TimeMethod("Before", y, x)),
		OnFalse("x.After(y)", c08TimeMethod("After", x, y)),
		OnCmp("x<y", x, token.LSS, y, true),
		OnCmp("x<=y", x, token.LEQ, y, true),
	}
}

// c08LT is the strict subset of c08LE (x strictly smaller / earlier).
func c08LT(x, y Pat) []Barrier {
	return []Barrier{
		OnTrue("x.Before(y)", c08TimeMethod("Before", x, y)),
		OnTrue("y.After(x)", c08TimeMethod("After", y, x)),
		OnCmp("x<y", x, token.LSS, y, true),
	}
}

// c08EdgeGuarded: the CFG edge P→S can only be taken after crossing one of
// bars (either the edge itself is a barrier edge, or P's terminator is
// unreachable from the function entry in the CFG minus barriers).
func (c *Ctx) c08EdgeGuarded(P, S *ssa.BasicBlock, bars []Barrier) (bool, string) {
	if len(P.Instrs) == 0 {
		return false, ""
	}
	term := P.Instrs[len(P.Instrs)-1]
	if iff, ok := term.(*ssa.If); ok {
		cond := condOf(iff)
		n, blocked := 0, 0
		for k, s := range P.Succs {
			if s != S {
				continue
			}
			n++
			for _, b := range bars {
				if b.Edge == nil {
					continue
				}
				if m, which := b.Edge(cond); m && which == k {
					blocked++
					break
				}
			}
		}
		if n > 0 && blocked == n {
			return true, ""
		}
	}
	ug, tr := c.unguarded(term, bars, TopLevel(P.Parent()))
	return !ug, tr
}

func c08Available(v ssa.Value, at *ssa.BasicBlock) bool {
	in, ok := v.(ssa.Instruction)
	if !ok {
		return true // parameter, constant, global, free variable
	}
	b := in.Block()
	if b == nil {
		return true
	}
	return b == at || b.Dominates(at)
}

func c08ShortVal(v ssa.Value) string { return trunc(Desc(v).String(), 120) }

// MinFoldPhi (E11, straight-line form): the phi merges alternatives of one
// quantity and must yield their minimum: for every incoming edge (pred P,
// value v) and every other incoming value u, "v <= u" must be established on
// the way to that edge (u is matched by SSA value or by canonical description,
// so a re-loaded field counts).  When u is not available at P (its definition
// does not dominate P — the candidate does not apply on that path, e.g. no DS
// ⇒ no DS bound) and no comparison is found, the pair is skipped, unless skip
// barriers are given: then the edge must be guarded by one of them (the only
// legitimate reason for not applying the candidate, e.g. cutUntil.IsZero()).
// Returns the number of (edge, other) pairs decided.
func (c *Ctx) c08MinFoldPhi(rule, key string, phi *ssa.Phi, what string, skip ...Barrier) int {
	fn := phi.Parent()
	n := 0
	distinct := []ssa.Value{}
	seen := map[ssa.Value]bool{}
	for _, v := range phi.Edges {
		if !seen[v] {
			seen[v] = true
			distinct = append(distinct, v)
		}
	}
	if len(distinct) < 2 {
		c.undecided(rule, key, phi.Pos(), what+": phi has a single incoming value — not a fold")
		return 0
	}
	bad := false
	for i, v := range phi.Edges {
		P := phi.Block().Preds[i]
		for _, u := range distinct {
			if u == v {
				continue
			}
			bars := c08LE(c08SameAs(Desc(v)), c08SameAs(Desc(u)))
			ok, tr := c.c08EdgeGuarded(P, phi.Block(), bars)
			if ok {
				n++
				continue
			}
			if !c08Available(u, P) {
				if len(skip) == 0 {
					continue
				}
				n++
				if ok2, tr2 := c.c08EdgeGuarded(P, phi.Block(), skip); !ok2 {
					bad = true
					c.violation(rule, key, instrPos(P.Instrs[len(P.Instrs)-1]), fmt.Sprintf("%s in %s: keeps %s without applying the bound %s, on a path that is not behind the only allowed bypass {%s}; path %s", what, fnKey(fn), c08ShortVal(v), c08ShortVal(u), c08BarNames(skip), tr2))
				}
				continue
			}
			n++
			bad = true
			c.violation(rule, key, instrPos(P.Instrs[len(P.Instrs)-1]), fmt.Sprintf("%s in %s: takes %s while %s is available, without a comparison establishing that the taken value is the smaller one; path %s", what, fnKey(fn), c08ShortVal(v), c08ShortVal(u), tr))
		}
	}
	if n == 0 {
		c.undecided(rule, key, phi.Pos(), what+": no comparable pair of alternatives found")
		return 0
	}
	if !bad {
		c.ok(rule, key, phi.Pos(), fmt.Sprintf("%s in %s: every alternative is taken only behind a comparison that makes it the minimum (%d edge/alternative pairs)", what, fnKey(fn), n))
	}
	return n
}

func c08BarNames(bs []Barrier) string {
	var ns []string
	for _, b := range bs {
		ns = append(ns, b.Name)
	}
	return strings.Join(ns, " | ")
}

// c08PhiFamily returns the phis transitively reachable from v through phi
// edges (the SSA incarnations of one accumulator variable).
func c08PhiFamily(v ssa.Value) map[*ssa.Phi]bool {
	fam := map[*ssa.Phi]bool{}
	var walk func(v ssa.Value)
	walk = func(v ssa.Value) {
		p, ok := v.(*ssa.Phi)
		if !ok || fam[p] {
			return
		}
		fam[p] = true
		for _, e := range p.Edges {
			walk(e)
		}
	}
	walk(v)
	return fam
}

// c08Entry is one place where a new (non-accumulator) value enters a phi family.
type c08Entry struct {
	Phi  *ssa.Phi
	Pred *ssa.BasicBlock
	Val  ssa.Value
}

func c08FamilyEntries(fam map[*ssa.Phi]bool) []c08Entry {
	var out []c08Entry
	for p := range fam {
		for i, e := range p.Edges {
			if q, ok := e.(*ssa.Phi); ok && fam[q] {
				continue
			}
			out = append(out, c08Entry{p, p.Block().Preds[i], e})
		}
	}
	sort.SliceStable(out, func(i, j int) bool {
		a, b := out[i], out[j]
		if a.Pred.Index != b.Pred.Index {
			return a.Pred.Index < b.Pred.Index
		}
		return a.Phi.Block().Index < b.Phi.Block().Index
	})
	return out
}

// MinFoldAccum (E11, accumulator form): acc is (an SSA incarnation of) a
// variable updated in a loop or a chain of ifs.  Every value entering the
// family other than an initial value (isInit) must enter on an edge guarded
// by "candidate < accumulator" (any incarnation of the accumulator), or by
// one of the extra barriers (e.g. "first element" edges).  Returns the
// candidates found (for coverage checks by the caller).
func (c *Ctx) c08MinFoldAccum(rule, key string, acc ssa.Value, what string, isInit Pat, extra ...Barrier) []*Expr {
	fam := c08PhiFamily(acc)
	if len(fam) == 0 {
		c.undecided(rule, key, acc.Pos(), what+": value is not an accumulator (no phi)")
		return nil
	}
	var famExprs []*Expr
	for p := range fam {
		famExprs = append(famExprs, &Expr{K: EPhi, V: p})
	}
	isAcc := func(e *Expr) bool {
		e = strip(e)
		if e == nil || e.V == nil {
			return false
		}
		p, ok := e.V.(*ssa.Phi)
		return ok && fam[p]
	}
	var cands []*Expr
	bad := false
	nInit := 0
	var fn *ssa.Function
	for _, en := range c08FamilyEntries(fam) {
		fn = en.Phi.Parent()
		ve := Desc(en.Val)
		if isInit != nil && isInit(ve) {
			nInit++
			continue
		}
		cands = append(cands, ve)
		bars := append(c08LT(c08SameAs(ve), isAcc), extra...)
		if ok, tr := c.c08EdgeGuarded(en.Pred, en.Phi.Block(), bars); !ok {
			bad = true
			c.violation(rule, key, instrPos(en.Pred.Instrs[len(en.Pred.Instrs)-1]), fmt.Sprintf("%s in %s: %s is assigned to the accumulator without the guard candidate < accumulator — the value can grow; path %s", what, fnKey(fn), trunc(ve.String(), 160), tr))
		}
	}
	if len(cands) == 0 {
		c.violation(rule, key, acc.Pos(), what+": accumulator has no folded candidate")
		return nil
	}
	if !bad {
		var cs []string
		for _, e := range cands {
			cs = append(cs, trunc(e.String(), 80))
		}
		c.ok(rule, key, acc.Pos(), fmt.Sprintf("%s in %s: min-fold, %d initial value(s), candidates {%s} each behind candidate < accumulator", what, fnKey(fn), nInit, strings.Join(cs, " ; ")))
	}
	return cands
}

// c08ReturnsSmallerParam (E11, function form): fn returns (result #idx) only
// parameters from the pair (pa, pb), and a return of one of them is reachable
// only across an edge establishing it is not larger than the other, or across
// "the other is zero (= unbounded)" when zeroIsUnbounded.
func (c *Ctx) c08ReturnsSmallerParam(rule string, fn *ssa.Function, idx int, pa, pb string, zeroIsUnbounded bool) {
	if fn == nil {
		c.unresolved(rule, "min function", "function not found")
		return
	}
	isP := func(name string) Pat {
		return func(e *Expr) bool { e = strip(e); return e != nil && e.K == EParam && e.Name == name }
	}
	n := 0
	for _, b := range fn.Blocks {
		for _, in := range b.Instrs {
			r, ok := in.(*ssa.Return)
			if !ok || idx >= len(r.Results) {
				continue
			}
			n++
			e := strip(Desc(r.Results[idx]))
			key := fmt.Sprintf("%s|%s|returns the smaller of %s,%s", rule, fnKey(fn), pa, pb)
			var self, other string
			switch {
			case isP(pa)(e):
				self, other = pa, pb
			case isP(pb)(e):
				self, other = pb, pa
			default:
				c.undecided(rule, key, instrPos(in), fmt.Sprintf("%s returns %s, which is neither %s nor %s", fnKey(fn), trunc(e.String(), 120), pa, pb))
				continue
			}
			bars := c08LE(isP(self), isP(other))
			if zeroIsUnbounded {
				bars = append(bars, OnTrue(other+".IsZero()", func(e *Expr) bool {
					e = strip(e)
					return e != nil && e.K == ECall && e.Fn != nil && e.Fn.Name() == "IsZero" && len(e.Args) == 1 && isP(other)(e.Args[0])
				}))
			}
			if ug, tr := c.unguarded(in, bars, fn); ug {
				c.violation(rule, key, instrPos(in), fmt.Sprintf("%s returns %s on a path that does not establish %s <= %s (or %s unbounded): the result is not the minimum; path %s", fnKey(fn), self, self, other, other, tr))
			} else {
				c.ok(rule, key, instrPos(in), fmt.Sprintf("%s returns %s only where %s <= %s or %s is zero/unbounded", fnKey(fn), self, self, other, other))
			}
		}
	}
	if n == 0 {
		c.unresolved(rule, fnKey(fn), "no return found")
	}
}

// c08StoreMinFold (E11, cell/field form): every store of a value into the
// location matched by isLoc-loads (a field or captured cell) in fn is either
// an initialisation (allowed by initBars: reachable only across those edges)
// or guarded by "value < current content of the location".  storePred selects
// the stores.  Returns the stored value descriptions.
func (c *Ctx) c08StoreMinFold(rule, key string, fn *ssa.Function, what string, storePred func(ssa.Instruction) bool, isLoad Pat, initBars ...Barrier) []*Expr {
	var vals []*Expr
	stores := instrsWhere(fn, storePred)
	if len(stores) == 0 {
		// the fold was moved wholesale into an unexported helper of fn
		for _, g := range scopeFuncs(fn) {
			if TopLevel(g) != TopLevel(fn) {
				stores = append(stores, instrsWhere(g, func(in ssa.Instruction) bool { return in.Parent() == g && storePred(in) })...)
			}
		}
	}
	for _, in := range stores {
		st, ok := in.(*ssa.Store)
		if !ok {
			continue
		}
		ve := Desc(st.Val)
		vals = append(vals, ve)
		bars := append(c08LT(c08SameAs(ve), isLoad), initBars...)
		// v = min(v, x) builtin form
		if se := strip(ve); se != nil && se.K == ECall && se.Method == "builtin.min" {
			hasSelf := false
			for _, a := range se.Args {
				if isLoad(a) {
					hasSelf = true
				}
			}
			if hasSelf {
				c.ok(rule, key, instrPos(in), what+": v = min(v, …)")
				continue
			}
		}
		if ug, tr := c.unguarded(in, bars, fn); ug {
			c.violation(rule, key, instrPos(in), fmt.Sprintf("%s in %s: stores %s without the guard value < current — the bound can grow; path %s", what, fnKey(in.Parent()), trunc(ve.String(), 160), tr))
		} else {
			c.ok(rule, key, instrPos(in), fmt.Sprintf("%s in %s: store of %s is an initialisation or behind value < current", what, fnKey(in.Parent()), trunc(ve.String(), 120)))
		}
	}
	return vals
}

// c08SecondsOf recognises time.Duration(x) * time.Second (either operand
// order) and returns x.
func c08SecondsOf(e *Expr) (*Expr, bool) {
	e = strip(e)
	if e == nil || e.K != EBin || e.Op != token.MUL {
		return nil, false
	}
	const second = int64(1000000000)
	if v, ok := constInt(e.Y); ok && v == second {
		return strip(e.X), true
	}
	if v, ok := constInt(e.X); ok && v == second {
		return strip(e.Y), true
	}
	return nil, false
}

// c08Leaves is Origins with nil transparency, de-duplicated by description.
func c08Leaves(v ssa.Value) []*Expr {
	var out []*Expr
	seen := map[string]bool{}
	for _, l := range Origins(Desc(v), nil) {
		s := l.String()
		if l.V != nil {
			s = fmt.Sprintf("%p|%s", l.V, s)
		}
		if seen[s] {
			continue
		}
		seen[s] = true
		out = append(out, l)
	}
	return out
}

// c08ParamCallerArgs: when the leaf is a parameter of an unexported, top-level
// function whose every use in the module is a direct call (a piece split off from
// the function that produced the value), the argument passed for it at EVERY call
// site; nil for anything else (exported functions, closures, functions also taken
// as a value, no call site) — such a leaf is judged as it stands.
func (c *Ctx) c08ParamCallerArgs(ll *Expr) []ssa.Value {
	if ll == nil || ll.K != EParam {
		return nil
	}
	p, _ := ll.V.(*ssa.Parameter)
	if p == nil || p.Parent() == nil || p.Parent().Parent() != nil {
		return nil
	}
	f := p.Parent()
	fo := funcObjOf(f)
	idx := -1
	for i, q := range f.Params {
		if q == p {
			idx = i
		}
	}
	if fo == nil || fo.Exported() || idx < 0 {
		return nil
	}
	var out []ssa.Value
	for _, s := range c.CallSites(fo) {
		cc := callCommon(s.Instr)
		if s.Kind == "ref" || cc == nil || cc.IsInvoke() || idx >= len(cc.Args) {
			return nil
		}
		out = append(out, cc.Args[idx])
	}
	return out
}

func c08ExprList(es []*Expr) string {
	var ss []string
	for _, e := range es {
		ss = append(ss, trunc(e.String(), 100))
	}
	return strings.Join(ss, " ; ")
}

// ---------------------------------------------------------------------------
// General min-fold analysis (round 2).  Shape-independent: the folded value may
// be a phi, a loop accumulator, the set of values returned by early returns,
// the set of arguments of several calls to one consumer, the result of a pure
// same-module helper that lowers one of its parameters, or builtin min.

// c08Alt is one place where a candidate value becomes the result: on a CFG
// edge into a phi (P→S), or at an instruction that consumes it (At).
type c08Alt struct {
	Val  ssa.Value
	P, S *ssa.BasicBlock
	At   ssa.Instruction
}

func (a c08Alt) block() *ssa.BasicBlock {
	if a.At != nil {
		return a.At.Block()
	}
	return a.P
}

func (a c08Alt) pos() token.Pos {
	if a.At != nil {
		return instrPos(a.At)
	}
	if a.P != nil && len(a.P.Instrs) > 0 {
		return instrPos(a.P.Instrs[len(a.P.Instrs)-1])
	}
	return token.NoPos
}

func (c *Ctx) c08AltGuarded(a c08Alt, bars []Barrier) (bool, string) {
	if len(bars) == 0 {
		return false, ""
	}
	if a.At != nil {
		ug, tr := c.unguarded(a.At, bars, TopLevel(a.At.Parent()))
		return !ug, tr
	}
	return c.c08EdgeGuarded(a.P, a.S, bars)
}

// c08Expand replaces phi-valued sinks by the edges on which non-phi values
// enter the phi family; returns the entries and the family.  through (optional)
// names, for a value that is a lowering step applied to an accumulator
// (helper(acc, …) / min(acc, …)), the accumulator operand(s): a phi found there
// belongs to the same accumulator and is walked too.
func c08Expand(sinks []c08Alt, through func(v ssa.Value) []ssa.Value) ([]c08Alt, map[*ssa.Phi]bool) {
	fam := map[*ssa.Phi]bool{}
	var out []c08Alt
	var walk func(p *ssa.Phi)
	follow := func(v ssa.Value) {
		if through == nil {
			return
		}
		for _, a := range through(v) {
			if q, ok := a.(*ssa.Phi); ok {
				walk(q)
			}
		}
	}
	walk = func(p *ssa.Phi) {
		if fam[p] {
			return
		}
		fam[p] = true
		for i, e := range p.Edges {
			if q, ok := e.(*ssa.Phi); ok {
				walk(q)
				continue
			}
			out = append(out, c08Alt{Val: e, P: p.Block().Preds[i], S: p.Block()})
			follow(e)
		}
	}
	for _, s := range sinks {
		if p, ok := s.Val.(*ssa.Phi); ok {
			walk(p)
		} else {
			out = append(out, s)
			follow(s.Val)
		}
	}
	return out, fam
}

// c08LoweringOperands: for helper(acc, …) with helper a lowering step in that
// parameter, or builtin min(…), the operand(s) that play the accumulator.
func (c *Ctx) c08LoweringOperands(v ssa.Value, depth int) []ssa.Value {
	call, ok := v.(*ssa.Call)
	if !ok || depth >= 3 {
		return nil
	}
	if b, ok := call.Call.Value.(*ssa.Builtin); ok && b.Name() == "min" {
		return call.Call.Args
	}
	h := call.Call.StaticCallee()
	if h == nil || len(h.Blocks) == 0 || h.Parent() != nil || h.Pkg == nil || call.Parent() == nil || h.Pkg != call.Parent().Pkg {
		return nil
	}
	for i, p := range h.Params {
		if !types.Identical(p.Type(), call.Type()) {
			continue
		}
		if _, ok := c.c08HelperStep(h, i, depth+1); ok {
			return []ssa.Value{call.Call.Args[i]}
		}
	}
	return nil
}

type c08FoldOpt struct {
	Skip  []Barrier      // the only legitimate reasons for not applying an alternative that is not available on a path
	Extra []Barrier      // additional edges accepted for taking a candidate (e.g. "first element")
	Acc   *ssa.Parameter // helper analysis: the parameter that plays the accumulator
	// Producers (opt-in, for rules that judge the candidates' own shape): a candidate that is
	// the result of a same-package helper which lowers none of its parameters is replaced by
	// what that helper returns (c08HelperProduces); off, such a call stays one opaque term.
	Producers bool
	depth     int
}

// c08Term is one folded candidate, described in the analysed function's terms
// (helper parameters substituted by the call-site arguments), and the place
// where it enters the result.
type c08Term struct {
	E   *Expr
	Loc c08Alt
}

type c08Problem struct {
	Pos token.Pos
	Msg string
}

type c08HelperKey struct {
	fn  *ssa.Function
	idx int
}

type c08HelperInfo struct {
	ok    bool
	terms []c08Term
}

var c08HelperMemo = map[c08HelperKey]*c08HelperInfo{}

// c08HelperStep: fn is a pure lowering step in parameter idx — every value it
// returns is that parameter or a candidate taken only where candidate <
// parameter (or as a pairwise minimum).  Returns the candidates (in fn's terms).
func (c *Ctx) c08HelperStep(fn *ssa.Function, idx, depth int) ([]c08Term, bool) {
	k := c08HelperKey{fn, idx}
	if h, ok := c08HelperMemo[k]; ok {
		return h.terms, h.ok
	}
	c08HelperMemo[k] = &c08HelperInfo{} // recursion guard
	info := &c08HelperInfo{}
	if fn != nil && len(fn.Blocks) > 0 && idx < len(fn.Params) && fn.Signature.Results().Len() == 1 {
		var sinks []c08Alt
		for _, in := range returnsWhere(fn, 0, nil) {
			sinks = append(sinks, c08Alt{Val: in.(*ssa.Return).Results[0], At: in})
		}
		acc := fn.Params[idx]
		ents, _ := c08Expand(sinks, nil)
		kept := false
		for _, e := range ents {
			if e.Val == ssa.Value(acc) {
				kept = true
			}
		}
		if kept && len(sinks) > 0 {
			terms, probs, _ := c.c08FoldCore(sinks, c08FoldOpt{Acc: acc, depth: depth})
			if len(probs) == 0 && len(terms) > 0 {
				info.ok, info.terms = true, terms
			}
		}
	}
	c08HelperMemo[k] = info
	return info.terms, info.ok
}

// c08HelperProduces: fn (single result, no accumulator parameter) returns only
// the minimum of the candidates it computes — a single returned expression, or
// alternatives each returned only where it is not larger than the others (the
// same decision c08FoldCore makes for an inline fold; any problem there leaves
// the call opaque).  Returns the candidates in fn's terms.
func (c *Ctx) c08HelperProduces(fn *ssa.Function, depth int) ([]c08Term, bool) {
	k := c08HelperKey{fn, -1}
	if h, ok := c08HelperMemo[k]; ok {
		return h.terms, h.ok
	}
	c08HelperMemo[k] = &c08HelperInfo{} // recursion guard
	info := &c08HelperInfo{}
	if fn != nil && len(fn.Blocks) > 0 && fn.Signature.Results().Len() == 1 && depth <= 3 {
		var sinks []c08Alt
		for _, in := range returnsWhere(fn, 0, nil) {
			sinks = append(sinks, c08Alt{Val: in.(*ssa.Return).Results[0], At: in})
		}
		if len(sinks) > 0 {
			terms, probs, _ := c.c08FoldCore(sinks, c08FoldOpt{depth: depth, Producers: true})
			if len(probs) == 0 && len(terms) > 0 {
				info.ok, info.terms = true, terms
			}
		}
	}
	c08HelperMemo[k] = info
	return info.terms, info.ok
}

// c08Subst clones e replacing the parameters of fn by the call-site arguments.
func c08Subst(e *Expr, fn *ssa.Function, args []*Expr, d int) *Expr {
	if e == nil || d > 30 {
		return e
	}
	if e.K == EParam {
		if p, ok := e.V.(*ssa.Parameter); ok && p.Parent() == fn && e.Idx >= 0 && e.Idx < len(args) {
			return args[e.Idx]
		}
		return e
	}
	cp := *e
	cp.X = c08Subst(e.X, fn, args, d+1)
	cp.Y = c08Subst(e.Y, fn, args, d+1)
	if len(e.Args) > 0 {
		cp.Args = make([]*Expr, len(e.Args))
		for i, a := range e.Args {
			cp.Args[i] = c08Subst(a, fn, args, d+1)
		}
	}
	return &cp
}

// c08FoldCore decides that the value reaching the sinks is the minimum of its
// candidates and can only be lowered: each entry is (1) the accumulator itself,
// (2) a lowering helper / builtin min applied to the accumulator, (3) taken only
// behind candidate < accumulator, or (4) taken only where it is <= every other
// alternative that is available there (alternatives that are not available are
// accepted only behind opt.Skip when given).
func (c *Ctx) c08FoldCore(sinks []c08Alt, opt c08FoldOpt) (terms []c08Term, probs []c08Problem, checks int) {
	ents, fam := c08Expand(sinks, func(v ssa.Value) []ssa.Value { return c.c08LoweringOperands(v, opt.depth) })
	// an incarnation of the accumulator: a family phi, the accumulator
	// parameter, or a lowering step (helper / min) applied to one
	var isAccD func(v ssa.Value, d int) bool
	isAccD = func(v ssa.Value, d int) bool {
		if opt.Acc != nil && v == ssa.Value(opt.Acc) {
			return true
		}
		if p, ok := v.(*ssa.Phi); ok {
			return fam[p]
		}
		if d < 4 {
			for _, a := range c.c08LoweringOperands(v, opt.depth) {
				if isAccD(a, d+1) {
					return true
				}
			}
		}
		return false
	}
	isAccVal := func(v ssa.Value) bool { return isAccD(v, 0) }
	// an entry is an initial value when it enters before the accumulator is
	// live: its edge is not reachable from the block of any family phi
	// accumulator mode: some entry is a step relative to the accumulator (a
	// lowering call on it, or a candidate taken behind candidate < accumulator).
	// Only then is there an "initial value"; a plain merge of alternatives is
	// decided pairwise with no entry exempt.
	accMode := false
	for _, en := range ents {
		if _, isPhi := en.Val.(*ssa.Phi); isPhi || (opt.Acc != nil && en.Val == ssa.Value(opt.Acc)) {
			continue
		}
		if isAccVal(en.Val) {
			accMode = true
			break
		}
		if len(fam) > 0 || opt.Acc != nil {
			if ok, _ := c.c08AltGuarded(en, append(c08LT(c08SameAs(Desc(en.Val)), func(e *Expr) bool { e = strip(e); return e != nil && e.V != nil && isAccVal(e.V) }), opt.Extra...)); ok {
				accMode = true
				break
			}
		}
	}
	isInitial := func(en c08Alt) bool {
		if !accMode || en.At != nil || len(fam) == 0 {
			return false
		}
		for q := range fam {
			if c08BlockReaches(q.Block(), en.P) {
				return false
			}
		}
		return true
	}
	isAcc := func(e *Expr) bool {
		e = strip(e)
		return e != nil && e.V != nil && isAccVal(e.V)
	}
	hasAcc := len(fam) > 0 || opt.Acc != nil
	// distinct candidate values
	var distinct []ssa.Value
	seen := map[ssa.Value]bool{}
	for _, e := range ents {
		if !seen[e.Val] && !isAccVal(e.Val) {
			seen[e.Val] = true
			distinct = append(distinct, e.Val)
		}
	}
	for _, en := range ents {
		v := en.Val
		if isAccVal(v) {
			if _, isPhi := v.(*ssa.Phi); isPhi || (opt.Acc != nil && v == ssa.Value(opt.Acc)) {
				continue // keeps the accumulator
			}
		}
		if isInitial(en) {
			terms = append(terms, c08Term{E: Desc(v), Loc: en})
			continue // initial upper bound, before anything is folded
		}
		var own []c08Term
		accStep := false
		ownVals := map[ssa.Value]bool{} // operands v is by construction not larger than
		if call, ok := v.(*ssa.Call); ok && opt.depth < 3 {
			if b, ok := call.Call.Value.(*ssa.Builtin); ok && b.Name() == "min" {
				for _, a := range call.Call.Args {
					ownVals[a] = true
					if isAccVal(a) {
						accStep = true
					}
				}
				for _, a := range call.Call.Args {
					if isAccVal(a) {
						continue
					}
					t2, p2, n2 := c.c08FoldCore([]c08Alt{{Val: a, P: en.P, S: en.S, At: en.At}}, c08FoldOpt{depth: opt.depth + 1, Producers: opt.Producers})
					own, probs, checks = append(own, t2...), append(probs, p2...), checks+n2
				}
			} else if h := call.Call.StaticCallee(); h != nil && len(h.Blocks) > 0 && h.Parent() == nil && h.Pkg != nil && en.block() != nil && h.Pkg == en.block().Parent().Pkg {
				for i, p := range h.Params {
					if !types.Identical(p.Type(), call.Type()) {
						continue
					}
					ht, ok := c.c08HelperStep(h, i, opt.depth+1)
					if !ok {
						continue
					}
					var args []*Expr
					for _, a := range call.Call.Args {
						args = append(args, Desc(a))
					}
					for _, t := range ht {
						own = append(own, c08Term{E: c08Subst(t.E, h, args, 0), Loc: en})
					}
					a := call.Call.Args[i]
					ownVals[a] = true
					if isAccVal(a) {
						accStep = true
					} else {
						t2, p2, n2 := c.c08FoldCore([]c08Alt{{Val: a, P: en.P, S: en.S, At: en.At}}, c08FoldOpt{depth: opt.depth + 1, Producers: opt.Producers})
						own, probs, checks = append(own, t2...), append(probs, p2...), checks+n2
					}
					break
				}
				if own == nil && opt.Producers {
					// no parameter is lowered: the helper may *produce* the value — the
					// computation of a candidate (or of a minimum of candidates) moved into
					// a function of its own.  What it returns, in the caller's terms,
					// replaces the opaque call.
					if ht, ok := c.c08HelperProduces(h, opt.depth+1); ok {
						var args []*Expr
						for _, a := range call.Call.Args {
							args = append(args, Desc(a))
						}
						for _, t := range ht {
							own = append(own, c08Term{E: c08Subst(t.E, h, args, 0), Loc: en})
						}
					}
				}
			}
		}
		if own == nil {
			own = []c08Term{{E: Desc(v), Loc: en}}
		}
		terms = append(terms, own...)
		if accStep {
			checks++
			continue
		}
		ve := Desc(v)
		// (3) candidate < accumulator
		if hasAcc {
			bars := append(c08LT(c08SameAs(ve), isAcc), opt.Extra...)
			if ok, _ := c.c08AltGuarded(en, bars); ok {
				checks++
				continue
			}
		}
		// (4) pairwise minimum among the alternatives
		for _, u := range distinct {
			if u == v || ownVals[u] {
				continue
			}
			ue := Desc(u)
			if strip(ue).String() == strip(ve).String() && strip(ve).String() != "?" {
				continue // the same quantity re-evaluated
			}
			if ok, _ := c.c08AltGuarded(en, c08LE(c08SameAs(ve), c08SameAs(ue))); ok {
				checks++
				continue
			}
			if !c08Available(u, en.block()) {
				if len(opt.Skip) == 0 {
					continue
				}
				checks++
				if ok, tr := c.c08AltGuarded(en, opt.Skip); !ok {
					probs = append(probs, c08Problem{en.pos(), fmt.Sprintf("keeps %s without applying the bound %s, on a path that is not behind the only allowed bypass {%s}; path %s", c08ShortVal(v), c08ShortVal(u), c08BarNames(opt.Skip), tr)})
				}
				continue
			}
			checks++
			_, tr := c.c08AltGuarded(en, c08LE(c08SameAs(ve), c08SameAs(ue)))
			probs = append(probs, c08Problem{en.pos(), fmt.Sprintf("takes %s while %s is available, without a comparison establishing that the taken value is the smaller one; path %s", c08ShortVal(v), c08ShortVal(u), tr)})
		}
		if hasAcc && opt.Acc != nil {
			// helper mode: a value other than the accumulator that is not behind value < accumulator
			// and has no other alternative to be compared with raises or replaces the accumulator
			if ok, _ := c.c08AltGuarded(en, c08LE(c08SameAs(ve), isAcc)); !ok {
				probs = append(probs, c08Problem{en.pos(), fmt.Sprintf("returns %s instead of the accumulator without the guard value <= accumulator", c08ShortVal(v))})
			}
		}
	}
	return terms, probs, checks
}

// c08Fold reports the result of c08FoldCore under one key and returns the
// folded candidates.
func (c *Ctx) c08Fold(rule, key, what string, sinks []c08Alt, opt c08FoldOpt) []c08Term {
	if len(sinks) == 0 {
		c.unresolved(rule, key, what+": no site found")
		return nil
	}
	terms, probs, n := c.c08FoldCore(sinks, opt)
	if len(probs) > 0 {
		for _, p := range probs {
			c.violation(rule, key, p.Pos, what+": "+p.Msg)
		}
		return terms
	}
	var es []*Expr
	for _, t := range terms {
		es = append(es, t.E)
	}
	c.ok(rule, key, sinks[0].pos(), fmt.Sprintf("%s: only ever the minimum of {%s} (%d guard checks)", what, trunc(c08ExprList(es), 400), n))
	return terms
}

func c08ReturnSinks(fn *ssa.Function, idx int, pred func(ssa.Instruction) bool) []c08Alt {
	var out []c08Alt
	for _, in := range returnsWhere(fn, idx, nil) {
		if pred != nil && !pred(in) {
			continue
		}
		out = append(out, c08Alt{Val: in.(*ssa.Return).Results[idx], At: in})
	}
	return out
}

func c08ArgSinks(instrs []ssa.Instruction, arg int) []c08Alt {
	var out []c08Alt
	for _, in := range instrs {
		if v := callArg(in, arg); v != nil {
			out = append(out, c08Alt{Val: v, At: in})
		}
	}
	return out
}

func c08TermExprs(ts []c08Term) []*Expr {
	var out []*Expr
	seen := map[string]bool{}
	for _, t := range ts {
		s := t.E.String()
		if seen[s] {
			continue
		}
		seen[s] = true
		out = append(out, t.E)
	}
	return out
}

// c08CallsAlways is a barrier crossed by a call to target, or by a call to a
// function of the module every path of which (entry → return) crosses such a
// call (one level of nesting): "the bound is applied" does not depend on the
// bound call being written inline.
var c08AlwaysMemo = map[*ssa.Function]map[*types.Func]bool{}

func c08FnAlwaysCalls(h *ssa.Function, target *types.Func, depth int) bool {
	if h == nil || len(h.Blocks) == 0 || depth > 2 {
		return false
	}
	if m, ok := c08AlwaysMemo[h]; ok {
		if v, ok := m[target]; ok {
			return v
		}
	} else {
		c08AlwaysMemo[h] = map[*types.Func]bool{}
	}
	c08AlwaysMemo[h][target] = false // recursion guard
	bar := Barrier{Name: "call", Instr: func(in ssa.Instruction) bool {
		cl, ok := in.(*ssa.Call)
		if !ok {
			return false
		}
		if callIs(&cl.Call, target) {
			return true
		}
		return c08FnAlwaysCalls(cl.Call.StaticCallee(), target, depth+1)
	}}
	res := true
	for _, t := range reach(entryPoint(h), []Barrier{bar}, nil).order {
		if isReturn(t) {
			res = false
		}
	}
	c08AlwaysMemo[h][target] = res
	return res
}

func c08CallsAlways(name string, target *types.Func) Barrier {
	return Barrier{Name: "call " + name + " (directly or through a helper that always does)", Instr: func(in ssa.Instruction) bool {
		cl, ok := in.(*ssa.Call)
		if !ok {
			return false
		}
		if callIs(&cl.Call, target) {
			return true
		}
		h := cl.Call.StaticCallee()
		if h == nil || h.Pkg == nil || in.Parent() == nil || h.Pkg != in.Parent().Pkg {
			return false
		}
		return c08FnAlwaysCalls(h, target, 1)
	}}
}

var c08ReachMemo = map[[2]*ssa.BasicBlock]bool{}

// c08BlockReaches: to is reachable from from in the CFG (from == to counts).
func c08BlockReaches(from, to *ssa.BasicBlock) bool {
	if from == to {
		return true
	}
	k := [2]*ssa.BasicBlock{from, to}
	if v, ok := c08ReachMemo[k]; ok {
		return v
	}
	seen := map[*ssa.BasicBlock]bool{from: true}
	q := []*ssa.BasicBlock{from}
	res := false
	for len(q) > 0 && !res {
		b := q[0]
		q = q[1:]
		for _, s := range b.Succs {
			if s == to {
				res = true
				break
			}
			if !seen[s] {
				seen[s] = true
				q = append(q, s)
			}
		}
	}
	c08ReachMemo[k] = res
	return res
}
