package main

// Reused writer wrappers carry no fact of the previous request (C06-R9 /
// C10-R10): the edns ResponseWriter comes from a pool or from a job-owned slot
// and both outlive the request.  For every field of the wrapper, in every
// function that installs one as the chain's writer:
//   * the field is (re)assigned on every path before the chain continues, or
//   * the deferred cleanup registered before the chain continues assigns it
//     (or the whole struct) on every one of its paths.
// Nothing is executed; both clauses are must-cross checks on the SSA CFG.

import (
	"fmt"
	"go/types"

	"golang.org/x/tools/go/ssa"
)

func runWriterSlotRule(c *Ctx, R string) {
	const p = "middleware/edns"
	c.Doc(R, "the edns response wrapper (pooled or job-owned, reused across requests) carries nothing over: in every function that installs an *edns.ResponseWriter as Chain.Writer, each field is assigned on every path before ch.Next, or the deferred cleanup registered before ch.Next assigns it (or the whole struct) on every path — a cookie, DO bit or size left from the previous client would shape the next client's reply")
	tn := c.P.TypeName(p + ".ResponseWriter")
	next := c.fobj(R, "middleware.(*Chain).Next")
	writerF := c.field(R, "middleware.Chain.Writer")
	if tn == nil || next == nil || writerF == nil {
		c.unresolved(R, "anchors", "edns.ResponseWriter / Chain.Next / Chain.Writer not found")
		return
	}
	st, ok := tn.Type().Underlying().(*types.Struct)
	if !ok {
		return
	}
	isRW := func(t types.Type) bool {
		n, ok := deref(t).(*types.Named)
		return ok && n.Obj() == tn
	}
	exempt := map[string]string{
		"pooled": "ownership marker: set only when the wrapper is drawn from the pool and cleared with the whole struct before Put (the pool side is C10-R4)",
	}
	// stores that (re)write field i of a wrapper; i < 0: the whole struct
	writes := func(in ssa.Instruction, i int) bool {
		switch x := in.(type) {
		case *ssa.Store:
			if fa, ok := x.Addr.(*ssa.FieldAddr); ok && isRW(fa.X.Type()) {
				return fa.Field == i
			}
			if pt, ok := x.Addr.Type().Underlying().(*types.Pointer); ok && isRW(pt) {
				if n, ok := pt.Elem().(*types.Named); ok && n.Obj() == tn {
					return true // *rw = ResponseWriter{…}: every field
				}
			}
		case *ssa.Call:
			// copy(rw.field[:], …) rewrites an array field
			if b, ok := x.Call.Value.(*ssa.Builtin); ok && b.Name() == "copy" && len(x.Call.Args) == 2 {
				if sl, ok := x.Call.Args[0].(*ssa.Slice); ok {
					if fa, ok := sl.X.(*ssa.FieldAddr); ok && isRW(fa.X.Type()) {
						return fa.Field == i
					}
				}
			}
		}
		return false
	}
	nfn := 0
	for _, fn := range c.P.FuncsInPkg(p) {
		if fn.Parent() != nil {
			continue
		}
		installs := false
		for _, b := range fn.Blocks {
			for _, in := range b.Instrs {
				if s, ok := in.(*ssa.Store); ok && isFieldStore(in, writerF, nil) {
					v := s.Val
					if mi, ok := v.(*ssa.MakeInterface); ok {
						v = mi.X
					}
					if isRW(v.Type()) {
						installs = true
					}
				}
			}
		}
		nexts := instrsWhere(fn, isCallTo(next))
		var own []ssa.Instruction
		for _, n := range nexts {
			if n.Parent() == fn {
				own = append(own, n)
			}
		}
		if !installs || len(own) == 0 {
			continue
		}
		nfn++
		// deferred cleanups (closures) registered in fn
		type cleanup struct {
			def  ssa.Instruction
			body *ssa.Function
		}
		var cleanups []cleanup
		for _, b := range fn.Blocks {
			for _, in := range b.Instrs {
				d, ok := in.(*ssa.Defer)
				if !ok {
					continue
				}
				switch v := d.Call.Value.(type) {
				case *ssa.MakeClosure:
					if f, ok := v.Fn.(*ssa.Function); ok {
						cleanups = append(cleanups, cleanup{in, f})
					}
				case *ssa.Function:
					cleanups = append(cleanups, cleanup{in, v})
				}
			}
		}
		for i := 0; i < st.NumFields(); i++ {
			f := st.Field(i)
			key := fmt.Sprintf("%s|%s|ResponseWriter.%s", R, fnKey(fn), f.Name())
			if why, ok := exempt[f.Name()]; ok {
				c.ok(R, key, fn.Pos(), "exempt: "+why)
				continue
			}
			idx := i
			pre := Barrier{Name: "store " + f.Name(), Instr: func(in ssa.Instruction) bool { return writes(in, idx) }}
			assigned := true
			for _, n := range own {
				if ug, _ := c.unguarded(n, []Barrier{pre}, fn); ug {
					assigned = false
				}
			}
			if assigned {
				c.ok(R, key, fn.Pos(), "assigned on every path before ch.Next")
				continue
			}
			// the cleanup
			cleaned := false
			for _, cl := range cleanups {
				// registered before every ch.Next
				reg := true
				defBar := Barrier{Name: "defer", Instr: func(in ssa.Instruction) bool { return in == cl.def }}
				for _, n := range own {
					if ug, _ := c.unguarded(n, []Barrier{defBar}, fn); ug {
						reg = false
					}
				}
				if !reg {
					continue
				}
				r := reach(entryPoint(cl.body), []Barrier{pre}, nil)
				leaks := false
				for _, t := range r.order {
					if isReturn(t) {
						leaks = true
						break
					}
				}
				if !leaks {
					cleaned = true
					break
				}
			}
			if cleaned {
				c.ok(R, key, fn.Pos(), "not assigned on every path, but the deferred cleanup rewrites it on every path")
			} else {
				c.violation(R, key, fn.Pos(), fmt.Sprintf("ResponseWriter.%s is neither assigned on every path before ch.Next nor reset by the deferred cleanup on every path: a reused wrapper (pool or job-owned slot) hands the previous request's %s to the next client", f.Name(), f.Name()))
			}
		}
	}
	if nfn < 2 {
		c.unresolved(R, "installers", fmt.Sprintf("expected the Msg and the wire entry of edns to install the wrapper, found %d", nfn))
	}
}
