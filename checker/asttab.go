package main

// E7 table agreement helpers: constant sets and ordered lists read from the
// syntax tree, resolved through type information (never text matching).

import (
	"fmt"
	"go/ast"
	"go/constant"
	"go/parser"
	"go/token"
	"go/types"
	"path/filepath"
	"sort"
	"strconv"
	"strings"

	"golang.org/x/tools/go/packages"
)

// pkgVarValue finds the initialiser expression of a package-level variable.
func (p *Prog) pkgVarValue(pkgRel, name string) (ast.Expr, *packages.Package) {
	pk := p.ByPath[p.expand(pkgRel)]
	if pk == nil {
		return nil, nil
	}
	for _, f := range pk.Syntax {
		for _, d := range f.Decls {
			gd, ok := d.(*ast.GenDecl)
			if !ok {
				continue
			}
			for _, sp := range gd.Specs {
				vs, ok := sp.(*ast.ValueSpec)
				if !ok {
					continue
				}
				for i, n := range vs.Names {
					if n.Name == name && i < len(vs.Values) {
						return vs.Values[i], pk
					}
				}
			}
		}
	}
	return nil, pk
}

// stringList extracts an ordered list of strings from a composite literal:
// []string{"a","b"} or []T{{"a", …}, {"b", …}} (first element / first string field).
func stringList(e ast.Expr, info *types.Info) ([]string, []ast.Expr, bool) {
	cl, ok := e.(*ast.CompositeLit)
	if !ok {
		return nil, nil, false
	}
	var out []string
	var elts []ast.Expr
	for _, el := range cl.Elts {
		x := el
		if inner, ok := el.(*ast.CompositeLit); ok {
			if len(inner.Elts) == 0 {
				return nil, nil, false
			}
			x = inner.Elts[0]
			if kv, ok := x.(*ast.KeyValueExpr); ok {
				x = kv.Value
			}
		}
		s, ok := constString(x, info)
		if !ok {
			return nil, nil, false
		}
		out = append(out, s)
		elts = append(elts, el)
	}
	return out, elts, true
}

func constString(e ast.Expr, info *types.Info) (string, bool) {
	if info != nil {
		if tv, ok := info.Types[e]; ok && tv.Value != nil && tv.Value.Kind() == constant.String {
			return constant.StringVal(tv.Value), true
		}
	}
	if bl, ok := e.(*ast.BasicLit); ok && bl.Kind == token.STRING {
		s, err := strconv.Unquote(bl.Value)
		return s, err == nil
	}
	return "", false
}

// parseLooseFile parses a file outside the build (e.g. gen.go, //go:build ignore).
func (p *Prog) parseLooseFile(rel string) (*ast.File, *token.FileSet, error) {
	fset := token.NewFileSet()
	f, err := parser.ParseFile(fset, filepath.Join(p.Dir, rel), nil, parser.SkipObjectResolution)
	return f, fset, err
}

func looseVarValue(f *ast.File, name string) ast.Expr {
	for _, d := range f.Decls {
		gd, ok := d.(*ast.GenDecl)
		if !ok {
			continue
		}
		for _, sp := range gd.Specs {
			vs, ok := sp.(*ast.ValueSpec)
			if !ok {
				continue
			}
			for i, n := range vs.Names {
				if n.Name == name && i < len(vs.Values) {
					return vs.Values[i]
				}
			}
		}
	}
	return nil
}

func indexOf(list []string, s string) int {
	for i, x := range list {
		if x == s {
			return i
		}
	}
	return -1
}

// constSetString renders a set of constants for messages.
func setString(m map[string]bool) string {
	var ks []string
	for k := range m {
		ks = append(ks, k)
	}
	sort.Strings(ks)
	return "{" + strings.Join(ks, ",") + "}"
}

func sameSet(a, b map[string]bool) bool {
	if len(a) != len(b) {
		return false
	}
	for k := range a {
		if !b[k] {
			return false
		}
	}
	return true
}

func subset(a, b map[string]bool) bool {
	for k := range a {
		if !b[k] {
			return false
		}
	}
	return true
}

// caseConsts collects the constant values of all case clauses of the switch
// statements in fd that satisfy pick (nil = all), as canonical strings
// (exact constant value; named constants are resolved through types).
func caseConsts(fd *ast.FuncDecl, info *types.Info, pick func(sw *ast.SwitchStmt) bool) (map[string]bool, int) {
	out := map[string]bool{}
	n := 0
	if fd == nil || fd.Body == nil {
		return out, 0
	}
	ast.Inspect(fd.Body, func(nd ast.Node) bool {
		sw, ok := nd.(*ast.SwitchStmt)
		if !ok {
			return true
		}
		if pick != nil && !pick(sw) {
			return true
		}
		n++
		for _, st := range sw.Body.List {
			cc := st.(*ast.CaseClause)
			for _, e := range cc.List {
				if tv, ok := info.Types[e]; ok && tv.Value != nil {
					out[tv.Value.ExactString()] = true
				} else {
					out["?"+types.ExprString(e)] = true
				}
			}
		}
		return true
	})
	return out, n
}

// switchOnTagNamed: the switch tag mentions an identifier/selector with that name.
func switchTagMentions(name string) func(*ast.SwitchStmt) bool {
	return func(sw *ast.SwitchStmt) bool {
		if sw.Tag == nil {
			return false
		}
		found := false
		ast.Inspect(sw.Tag, func(n ast.Node) bool {
			switch x := n.(type) {
			case *ast.Ident:
				if x.Name == name {
					found = true
				}
			case *ast.SelectorExpr:
				if x.Sel.Name == name {
					found = true
				}
			}
			return true
		})
		return found
	}
}

// mapLitKeys returns the constant keys of a map composite literal.
func mapLitKeys(e ast.Expr, info *types.Info) (map[string]bool, bool) {
	cl, ok := e.(*ast.CompositeLit)
	if !ok {
		return nil, false
	}
	out := map[string]bool{}
	for _, el := range cl.Elts {
		kv, ok := el.(*ast.KeyValueExpr)
		if !ok {
			return nil, false
		}
		tv, ok := info.Types[kv.Key]
		if !ok || tv.Value == nil {
			return nil, false
		}
		out[tv.Value.ExactString()] = true
	}
	return out, true
}

func fmtPos(fset *token.FileSet, pos token.Pos) string {
	ps := fset.Position(pos)
	return fmt.Sprintf("%s:%d", filepath.Base(ps.Filename), ps.Line)
}
