package main

// Regression mutants for F-C01-8 (a signed answer for a literally asked wildcard owner,
// "*.zone. A", was refused as a wildcard expansion without next-closer denial).
func init() {
	addMutants("C01", []Mutant{
		{ID: "c01-wildcard-owner-plain-count", File: "middleware/resolver/dnssec/wildcard.go", Expect: "C01-R20|middleware/resolver/dnssec.VerifyWildcardAnswerForZoneWithWork|RRSIG.Labels vs owner label count",
			Old: "\t\tif int(sig.Labels) >= ownerLabels {\n",
			New: "\t\tif int(sig.Labels) >= len(owner.labels) {\n",
			Why: "F-C01-8: the §5.3.4 post-check goes back to the plain label count: the RRset stored at *.wild.test. (Labels=2, three labels) is read as an expansion, the next closer name is the owner itself, no NSEC/NSEC3 can cover it → SERVFAIL for a correctly signed answer"},
		{ID: "c01-wildcard-expanded-plain-count", File: "middleware/resolver/dnssec/verify.go", Expect: "C01-R20|middleware/resolver/dnssec.wildcardExpanded|RRSIG.Labels vs owner label count",
			Old: "\tif strings.HasPrefix(owner, \"*.\") {\n\t\tlabels--\n\t}\n\treturn int(sig.Labels) < labels\n",
			New: "\treturn int(sig.Labels) < labels\n",
			Why: "same defect in the sibling predicate: the NSEC/NSEC3 a zone publishes AT a wildcard owner (*.zone. NSEC …, Labels = labels-1) is taken for a wildcard-synthesised denial record and refused, so every wildcard answer/NODATA proof that needs that record fails validation"},
	})
}
