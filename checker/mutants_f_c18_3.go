package main

func init() {
	addMutants("C18", []Mutant{
		{ID: "f-c18-3-raw-dot-search-in-exists", File: "middleware/blocklist/blocklist.go", Expect: "C18-R12|(*middleware/blocklist.BlockList).Exists|label boundaries from the escape-aware iterator",
			Old: "\t\tvar end bool\n\t\toffset, end = dns.NextLabel(key, offset)\n\t\tif end {\n\t\t\tbreak\n\t\t}\n",
			New: "\t\tidx := strings.IndexByte(key[offset:], '.')\n\t\tif idx == -1 || offset+idx+1 >= len(key) {\n\t\t\tbreak\n\t\t}\n\t\toffset += idx + 1\n",
			Why: "re-introduces F-C18-3 in the block walk: foo\\.example.com. (labels [foo.example com]) is blocked by the entry example.com."},
		{ID: "f-c18-3-raw-dot-search-in-whitelist", File: "middleware/blocklist/blocklist.go", Expect: "C18-R12|middleware/blocklist.matchHierarchy|label boundaries from the escape-aware iterator",
			Old: "\t\tvar end bool\n\t\toffset, end = dns.NextLabel(name, offset)\n\t\tif end {\n\t\t\treturn false\n\t\t}\n\t\tif m[name[offset:]] {",
			New: "\t\tidx := strings.IndexByte(name[offset:], '.')\n\t\tif idx == -1 {\n\t\t\treturn false\n\t\t}\n\t\toffset += idx + 1\n\t\tif offset < len(name) && m[name[offset:]] {",
			Why: "re-introduces F-C18-3 in the whitelist walk: whitelisting example.net exempts ads\\.example.net. (a child of the blocked net., not of example.net.)"},
		{ID: "f-c18-3-suffix-keeps-the-dot", File: "middleware/blocklist/blocklist.go", Expect: "C18-R7",
			Old: "\t\tsuffix := key[offset:]\n",
			New: "\t\tsuffix := key[offset-1:]\n",
			Why: "replacement for c18-suffix-match (its anchor, the IndexByte walk, no longer exists on the fixed tree): the candidate starts ON the separator, so no parent ever matches; also reported by C18-R12 (arithmetic on an iterator offset)"},
	})
}
