package main

// Regression mutants for finding F-C19-5 (the resolver's "clean empty response" for a NOERROR
// reply without answer and authority is dressed with the request's own additional section, whose
// ECS option says SCOPE 0).  Old = the fixed tree.
func init() {
	addMutants("C19", []Mutant{
		{ID: "f-c19-5-clean-reply-keeps-request-opt", File: "middleware/resolver/resolver.go", Expect: "C19-R13|(*middleware/resolver.Resolver).resolve",
			Old: "\t\tm.Extra = extra\n", New: "\t\t_ = extra\n",
			Why: "F-C19-5: the stand-in for a subnet-scoped bare NODATA leaves the resolver with the request's SCOPE-0 option; the cache files it under the shared key and serves it to every other subnet"},
		{ID: "f-c19-5-scope-read-from-request", File: "middleware/resolver/resolver.go", Expect: "C19-R13|(*middleware/resolver.Resolver).resolve",
			Old: "scope := upstreamClientSubnet(rs.req, resp); scope != nil {", New: "scope := upstreamClientSubnet(rs.req, rs.req); scope != nil {",
			Why: "F-C19-5: the option carried over is the request's own (SCOPE 0), not the authority's: same cache entry under the shared key"},
	})
}
