package main

// W4 / C01-w4g2c5 — C01-R19: whatever leaves answer() carrying data of the
// separately resolved DNAME target also carries the target's verdict.
//
// answer() validates the outer reply alone and then merges the result M of the
// DNAME target lookup (checkDname) into it: M's answer records, M's rcode and —
// on the two negative exits — M's authority section.  C01-R1 decides that the
// store `AD ← own AD && M.AD` has the right VALUE; nothing decided WHERE it
// stands.  Moved below the two negative arms (NXDOMAIN / NODATA of the target),
// which return early, those replies leave with the outer zone's AD only: a
// signed DNAME into an unsigned zone yields an "authenticated" NXDOMAIN made of
// the unsigned zone's SOA.
//
//   Resolver.answer (closures and unexported helpers included): from every
//   store that copies a section or the rcode of M (M = the message returned by
//   checkDname) into another message — reached from the entry with the fold
//   still outstanding — no return of a message is reachable without crossing
//     - a store to dns.MsgHdr.AuthenticatedData whose value has M's AD bit
//       among its operands (the conjunction C01-R1 checks), or
//     - a store of the constant false to AuthenticatedData, or
//     - the true edge of M.AuthenticatedData (nothing to take away), or
//     - the true edge of <request>.CheckingDisabled (AD is not promised).
//
// Path structure only; nothing is executed.

import (
	"go/types"

	"golang.org/x/tools/go/ssa"
)

func init() {
	wrap := func(id string, extra func(c *Ctx), explain string) {
		pd := props[id]
		if pd == nil {
			return
		}
		orig := pd.Run
		pd.Run = func(c *Ctx) { orig(c); extra(c) }
		pd.Explanation += " " + explain
	}
	wrap("C01", c01R19, "R19 (added): in answer() every reply that received records, the rcode or the authority section of the DNAME target lookup has the target's AD folded into its own before it is returned — on the NXDOMAIN and NODATA exits as well as on the positive splice; otherwise a signed DNAME pointing into an unsigned zone produces AD=1 denials built from unsigned data.")
}

func c01R19(c *Ctx) {
	const R = "C01-R19"
	const res = "middleware/resolver"
	c.Doc(R, "Resolver.answer: once a section or the rcode of the DNAME target lookup's message M (result of checkDname) has been copied into the reply, every return of a message lies behind a store AuthenticatedData ← (… M.AuthenticatedData …) / ← false, behind M.AuthenticatedData = true, or behind CheckingDisabled = true — on every exit, the early-returning NXDOMAIN and NODATA arms included (the value of the conjunction is C01-R1's business, its placement is decided here)")
	fn := c.fn(R, res+".(*Resolver).answer")
	checkDname := c.fobj(R, res+".(*Resolver).checkDname")
	adF := c.field(R, "github.com/miekg/dns.MsgHdr.AuthenticatedData")
	cdF := c.field(R, "github.com/miekg/dns.MsgHdr.CheckingDisabled")
	rcodeF := c.field(R, "github.com/miekg/dns.MsgHdr.Rcode")
	ansF := c.field(R, "github.com/miekg/dns.Msg.Answer")
	nsF := c.field(R, "github.com/miekg/dns.Msg.Ns")
	extraF := c.field(R, "github.com/miekg/dns.Msg.Extra")
	if fn == nil || checkDname == nil || adF == nil || cdF == nil || rcodeF == nil || ansF == nil || nsF == nil || extraF == nil {
		return
	}
	fromM := Contains(ResultOf(0, checkDname))
	// a read of field f of the target message
	mField := func(fs ...*types.Var) Pat {
		return Contains(func(e *Expr) bool {
			e = strip(e)
			return e != nil && e.K == EField && FieldIs(fs...)(e) && e.X != nil && fromM(e.X)
		})
	}
	mData := mField(ansF, nsF, extraF, rcodeF)
	mAD := mField(adF)
	dataField := func(fa *ssa.FieldAddr) bool {
		st, _ := deref(fa.X.Type()).Underlying().(*types.Struct)
		if st == nil || fa.Field >= st.NumFields() {
			return false
		}
		switch st.Field(fa.Field).Origin() {
		case ansF, nsF, extraF, rcodeF:
			return true
		}
		return false
	}
	// transfer: <other message>.{Answer,Ns,Extra,Rcode} = … M.{Answer,Ns,Extra,Rcode} …
	isTransfer := func(in ssa.Instruction) bool {
		st, ok := in.(*ssa.Store)
		if !ok {
			return false
		}
		fa, ok := st.Addr.(*ssa.FieldAddr)
		if !ok || !dataField(fa) {
			return false
		}
		if fromM(Desc(fa.X)) {
			return false // writing into M itself
		}
		return mData(Desc(st.Val))
	}
	// a helper that performs the copy for the caller: it is handed M and stores a
	// section of that parameter into a message
	helperTransfers := func(in ssa.Instruction) bool {
		cl, ok := in.(*ssa.Call)
		if !ok {
			return false
		}
		h := localHelper(in.Parent(), &cl.Call)
		if h == nil {
			return false
		}
		for i, a := range cl.Call.Args {
			if i >= len(h.Params) || !fromM(Desc(a)) {
				continue
			}
			p := h.Params[i]
			fromP := Contains(func(e *Expr) bool { return e != nil && e.V == ssa.Value(p) })
			for _, g := range WithAnons(h) {
				for _, b := range g.Blocks {
					for _, hin := range b.Instrs {
						st, ok := hin.(*ssa.Store)
						if !ok {
							continue
						}
						fa, ok := st.Addr.(*ssa.FieldAddr)
						if !ok || !dataField(fa) || fromP(Desc(fa.X)) {
							continue
						}
						if Contains(func(e *Expr) bool {
							e = strip(e)
							return e != nil && e.K == EField && FieldIs(ansF, nsF, extraF, rcodeF)(e) && e.X != nil && fromP(e.X)
						})(Desc(st.Val)) {
							return true
						}
					}
				}
			}
		}
		return false
	}
	bars := []Barrier{
		StoreBarrier("AD ← … M.AD …", adF, mAD),
		// the same fold extracted into an unexported helper: there M is a parameter —
		// AD ← … <another *dns.Msg parameter>.AD … (which argument is M is the call's business;
		// alwaysCrosses only consults this when the helper is called on the walked path)
		{Name: "store AD ← … <other message parameter>.AD … (in a helper)", Instr: func(in ssa.Instruction) bool {
			if TopLevel(in.Parent()) == fn || !isFieldStore(in, adF, nil) {
				return false
			}
			st := in.(*ssa.Store)
			base := strip(Desc(st.Addr.(*ssa.FieldAddr).X))
			return Contains(func(e *Expr) bool {
				e = strip(e)
				if e == nil || e.K != EField || !FieldIs(adF)(e) || e.X == nil {
					return false
				}
				x := strip(e.X)
				for x != nil && x.K == EField { // resp.MsgHdr.AuthenticatedData
					x = strip(x.X)
				}
				return x != nil && x.K == EParam && (base == nil || !Contains(func(b *Expr) bool { return b != nil && b.K == EParam && b.Name == x.Name })(base))
			})(Desc(st.Val))
		}},
		StoreBarrier("AD ← false", adF, IsConstBool(false)),
		OnTrue("M.AD", func(e *Expr) bool {
			e = strip(e)
			return e != nil && e.K == EField && FieldIs(adF)(e) && e.X != nil && fromM(e.X)
		}),
		OnTrue("CD", FieldIs(cdF)),
	}
	msgReturn := isReturnWith(0, func(e *Expr) bool { return !IsNilConst(e) })
	key := R + "|" + fnKey(fn) + "|target data merged ⇒ target AD folded in before every return"
	var froms []ssa.Instruction
	for _, f := range WithAnons(fn) {
		for _, b := range f.Blocks {
			for _, in := range b.Instrs {
				if isTransfer(in) || helperTransfers(in) {
					froms = append(froms, in)
				}
			}
		}
	}
	if len(froms) == 0 {
		c.unresolved(R, fnKey(fn)+"|merge of the DNAME target", "no store in answer() copies a section or the rcode of checkDname's message into the reply (rule would pass vacuously)")
		return
	}
	outstanding := 0
	for _, from := range froms {
		// only merges that happen while the fold is still outstanding matter: one that
		// every path reaches across the fold (resp.Ns = <M's authority> on the exits) is covered
		if ug, _ := c.unguarded(from, bars, fn); !ug {
			continue
		}
		outstanding++
		r := reach([]Point{pointAfter(from)}, bars, nil)
		for _, t := range r.order {
			if t.Parent() != from.Parent() {
				continue
			}
			if _, isRet := t.(*ssa.Return); !isRet || !msgReturn(t) {
				continue
			}
			c.violation(R, key, instrPos(t), "after "+c.lineOf(from)+" copied data of the DNAME target lookup into the reply, the return at "+c.P.pos(instrPos(t))+" is reached without the target's AD having been folded into the reply's (no AD ← own && target store, no AD ← false, no test of the target's AD on the way): a signed DNAME whose target lies in an unsigned zone then yields AD=1 on a reply whose rcode and authority section are the unsigned zone's — an on-path attacker near that zone fabricates authenticated NXDOMAIN/NODATA for any name under the DNAME; path "+c.trail(r, t))
			return
		}
	}
	if outstanding == 0 {
		c.ok(R, key, instrPos(froms[0]), "every merge of target data happens after the target's AD was folded in")
		return
	}
	c.ok(R, key, instrPos(froms[0]), "from every merge of target data each return of a message crosses the AD fold (or CD=1 / target AD=1)")
}
