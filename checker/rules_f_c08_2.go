package main

// C08-R11 (finding F-C08-2) — the nameserver-address caches carry a lifetime.
//
// Resolver.glueV4 / glueV6 remember the addresses of NS hosts: referral glue
// and the results of NS A/AAAA lookups.  Which machine is asked for a zone is
// decided by them (lookupNSAddrV4/V6 consult them before resolving anything).
// Every other store the delegation work touches is bounded by the lease; a
// table without any lifetime keeps the address a former operator published
// for as long as the process lives, however short the delegation it was
// learned through.  Necessary, and decidable from the structure alone:
//
//   (a) whatever is put into those tables (cache.Cache.Add on a receiver that
//       is, or is fed by every caller from, Resolver.glueV4/glueV6) is a
//       record with a time.Time deadline field — not bare addresses;
//   (b) the deadline written into that record is never later than a cap
//       <instant>.Add(K), K constant, 0 < K <= the delegation ceiling
//       authority.maximumTTL: every alternative is the cap, a pairwise minimum
//       with the cap, or taken only across "alternative <= cap" (an address is
//       never held longer than a delegation itself may be);
//   (c) a hit (cache.Cache.Get on such a receiver) reaches the caller — a
//       return that carries anything read from the entry — only across the
//       edge "now is before the entry's deadline".
//
// What is NOT decided: that the deadline handed in is the lease of the
// lineage the address was learned through (referral lease / the cuts crossed by
// the lookup); that is a relation between runtime values of several functions.

import (
	"fmt"
	"go/constant"
	"go/types"

	"golang.org/x/tools/go/ssa"
)

func init() {
	wrap := func(id string, extra func(c *Ctx), explain string) {
		pd := props[id]
		if pd == nil {
			return
		}
		orig := pd.Run
		pd.Run = func(c *Ctx) { orig(c); extra(c) }
		pd.Explanation += " " + explain
	}
	wrap("C08", c08R11, "R11 (F-C08-2): the nameserver-address caches (Resolver.glueV4/glueV6) carry a lifetime — what is stored is a record with a deadline that is a minimum including now+K (K <= authority.maximumTTL), and a hit is handed out only across now-before-deadline; addresses learned through a delegation are not kept for the life of the process.")
}

func c08R11(c *Ctx) {
	const R = "C08-R11"
	const rp = "middleware/resolver"
	c.Doc(R, "every cache.Cache.Add whose receiver is Resolver.glueV4/glueV6 (directly or as the parameter of an unexported helper that is handed one of them) stores a record with a time.Time deadline field, the deadline written into it is a minimum with a candidate <instant>.Add(K), K constant, 0 < K <= authority.maximumTTL, and after every cache.Cache.Get on such a receiver a return carrying anything read from the entry is reachable only across now.Before(deadline) / deadline.After(now) (or the false edge of the mirrored forms). lookupNSAddrV4/V6 ask these tables first, so an address without a lifetime keeps a re-pointed or withdrawn zone's former operator in charge of every zone that names the host")
	glue := []*types.Var{c.field(R, rp+".Resolver.glueV4"), c.field(R, rp+".Resolver.glueV6")}
	add := c.fobj(R, "internal/cache.(*Cache).Add")
	get := c.fobj(R, "internal/cache.(*Cache).Get")
	timeAdd := c.fobj(R, "time.Time.Add")
	minNonZero := c.fobj(R, rp+".minNonZero")
	maxV := c.P.ConstVal("internal/authority.maximumTTL")
	if glue[0] == nil || glue[1] == nil || add == nil || get == nil || timeAdd == nil {
		return
	}
	var maxTTL int64
	if maxV != nil {
		maxTTL, _ = constant.Int64Val(constant.ToInt(maxV))
	}
	if maxTTL <= 0 {
		c.unresolved(R, "internal/authority.maximumTTL", "constant not found or not positive")
		return
	}
	isGlue := FieldIs(glue...)

	// onGlue: is the receiver of this call one of the glue tables — itself, or a parameter of an
	// unexported helper into which some caller passes one (two levels)?
	var onGlue func(f *ssa.Function, recv ssa.Value, depth int) bool
	onGlue = func(f *ssa.Function, recv ssa.Value, depth int) bool {
		for _, l := range Origins(Desc(recv), nil) {
			l = strip(l)
			if l == nil {
				continue
			}
			if isGlue(l) {
				return true
			}
			if l.K == EParam && depth < 2 {
				top := TopLevel(f)
				fo := funcObjOf(top)
				if fo == nil || top != f {
					continue
				}
				for _, s := range c.CallSites(fo) {
					if s.Kind == "ref" {
						continue
					}
					cc := callCommon(s.Instr)
					if cc == nil || cc.IsInvoke() {
						continue
					}
					idx := l.Idx
					if idx < len(cc.Args) && onGlue(s.Fn, cc.Args[idx], depth+1) {
						return true
					}
				}
			}
		}
		return false
	}

	timeField := func(t types.Type) (int, *types.Var) {
		st, ok := deref(t).Underlying().(*types.Struct)
		if !ok {
			return -1, nil
		}
		for i := 0; i < st.NumFields(); i++ {
			if c08IsTime(st.Field(i).Type()) {
				return i, st.Field(i)
			}
		}
		return -1, nil
	}

	nAdd, nGet := 0, 0
	deadlineFields := map[*types.Var]bool{}
	for _, fn := range c.P.FuncsInPkg(rp) {
		for _, b := range fn.Blocks {
			for _, in := range b.Instrs {
				switch {
				case isPlainCallTo(add)(in):
					recv := callArg(in, 0)
					if recv == nil || !onGlue(fn, recv, 0) {
						continue
					}
					nAdd++
					top := fnKey(TopLevel(fn))
					keyA := fmt.Sprintf("%s|%s|stored nameserver addresses carry a deadline", R, top)
					keyB := fmt.Sprintf("%s|%s|stored deadline is capped by the delegation ceiling", R, top)
					val := callArg(in, 2)
					if mi, ok := val.(*ssa.MakeInterface); ok {
						val = mi.X
					}
					fi, fv := timeField(val.Type())
					if fv == nil {
						c.violation(R, keyA, instrPos(in), fmt.Sprintf("the nameserver-address table is given a bare %s: the entry has no lifetime, so an address learned through a delegation (referral glue, NS A/AAAA lookup) is used for as long as the process lives — after the parent re-points or withdraws the zone its former operator is still the one asked", types.TypeString(val.Type(), func(p *types.Package) string { return p.Name() })))
						continue
					}
					deadlineFields[fv] = true
					c.ok(R, keyA, instrPos(in), "entry type "+types.TypeString(deref(val.Type()), func(p *types.Package) string { return p.Name() })+" has the deadline field "+fv.Name())
					// (b) what is written into the deadline field of the stored record
					var sinks []c08Alt
					for _, g := range WithAnons(TopLevel(fn)) {
						for _, gb := range g.Blocks {
							for _, gin := range gb.Instrs {
								st, ok := gin.(*ssa.Store)
								if !ok {
									continue
								}
								fa, ok := st.Addr.(*ssa.FieldAddr)
								if !ok || fa.Field != fi || !types.Identical(deref(fa.X.Type()), deref(val.Type())) {
									continue
								}
								sinks = append(sinks, c08Alt{Val: st.Val, At: gin})
							}
						}
					}
					if len(sinks) == 0 {
						c.undecided(R, keyB, instrPos(in), "no store into the entry's deadline field found in the storing function")
						continue
					}
					// every alternative that can become the stored deadline is the cap itself
					// (<instant>.Add(K), 0 < K <= ceiling), a pairwise minimum that has the cap among
					// its operands, or is taken only across the edge "alternative <= cap"
					isCap := func(e *Expr) bool {
						e = strip(e)
						if e == nil || !CallTo(timeAdd)(e) || len(e.Args) != 2 {
							return false
						}
						k, isK := constInt(e.Args[1])
						return isK && k > 0 && k <= maxTTL
					}
					hasCapOperand := func(e *Expr) bool {
						e = strip(e)
						if e == nil || e.K != ECall || !(x5IsBuiltinCall(e, "min") || (minNonZero != nil && CallTo(minNonZero)(e))) {
							return false
						}
						for _, l := range c08SplitMinTerms([]*Expr{e}, timeAdd, minNonZero) {
							if isCap(l) {
								return true
							}
						}
						return false
					}
					ents, _ := c08Expand(sinks, nil)
					var alts []string
					bad, capSeen := "", false
					for _, en := range ents {
						ve := Desc(en.Val)
						alts = append(alts, trunc(ve.String(), 80))
						if isCap(ve) || hasCapOperand(ve) {
							capSeen = true
							continue
						}
						if ok, tr := c.c08AltGuarded(en, c08LE(c08SameAs(ve), isCap)); !ok {
							bad = fmt.Sprintf("%s becomes the stored deadline without a comparison establishing that it is not later than <instant>.Add(K), 0 < K <= authority.maximumTTL; path %s", trunc(ve.String(), 120), tr)
						} else {
							capSeen = true
						}
					}
					switch {
					case bad != "":
						c.violation(R, keyB, instrPos(in), bad+" — a nameserver address may be held longer than any delegation")
					case !capSeen:
						c.undecided(R, keyB, instrPos(in), "no alternative of the stored deadline found")
					default:
						c.ok(R, keyB, instrPos(in), fmt.Sprintf("stored deadline ∈ {%s}, each the cap or taken only where it is not later than the cap", trunc(fmt.Sprint(alts), 300)))
					}
				case isPlainCallTo(get)(in):
					recv := callArg(in, 0)
					if recv == nil || !onGlue(fn, recv, 0) {
						continue
					}
					nGet++
					key := fmt.Sprintf("%s|%s|a hit is handed out only before the entry's deadline", R, fnKey(TopLevel(fn)))
					call, _ := in.(ssa.Value)
					fromEntry := func(e *Expr) bool {
						return Contains(func(x *Expr) bool { return x != nil && x.V != nil && x.V == call })(e)
					}
					// a return that carries something read from the entry (beyond the bare found-flag)
					carries := func(t ssa.Instruction) bool {
						r, ok := t.(*ssa.Return)
						if !ok {
							return false
						}
						for _, rv := range r.Results {
							if b, isB := rv.Type().Underlying().(*types.Basic); isB && b.Kind() == types.Bool {
								continue
							}
							if fromEntry(Desc(rv)) {
								return true
							}
						}
						return false
					}
					isDeadline := func(e *Expr) bool {
						e = strip(e)
						return e != nil && e.K == EField && e.V != nil && c08IsTime(e.V.Type()) && fromEntry(e)
					}
					bars := append(c08LT(Any, isDeadline), c08LE(Any, isDeadline)...)
					r := reach([]Point{pointAfter(in)}, bars, nil)
					bad := ""
					for _, t := range r.order {
						if carries(t) {
							bad = c.trail(r, t)
							break
						}
					}
					if bad == "" {
						c.ok(R, key, instrPos(in), "every return that carries the entry's content is behind now-before-deadline")
					} else {
						c.violation(R, key, instrPos(in), "a cached nameserver address is returned without its age being looked at (no now.Before(entry deadline) on the way): once learned, the address is never resolved again — the operator a zone was taken away from keeps being asked; path "+bad)
					}
				}
			}
		}
	}
	if nAdd == 0 {
		c.unresolved(R, "glue tables|Add", "no cache.Cache.Add on Resolver.glueV4/glueV6 found: the nameserver-address cache has moved, re-anchor the rule")
	}
	if nGet == 0 {
		c.unresolved(R, "glue tables|Get", "no cache.Cache.Get on Resolver.glueV4/glueV6 found: the nameserver-address cache has moved, re-anchor the rule")
	}
}
