package main

// Helpers private to the C02 rules.

import (
	"fmt"
	"go/constant"
	"go/token"
	"go/types"
	"strings"

	"golang.org/x/tools/go/ssa"
)

// c02WholeStores returns the values stored into the local struct cell a as a
// whole (`*a = v`); ok=false when a is also written field by field or its
// address escapes, in which case its content is not attributable.
func c02WholeStores(a *ssa.Alloc) (vals []ssa.Value, ok bool) {
	if a.Referrers() == nil {
		return nil, false
	}
	for _, r := range *a.Referrers() {
		switch x := r.(type) {
		case *ssa.Store:
			if x.Addr != a {
				return nil, false
			}
			vals = append(vals, x.Val)
		case *ssa.UnOp, *ssa.DebugRef:
		case *ssa.FieldAddr:
			if x.Referrers() != nil {
				for _, rr := range *x.Referrers() {
					if st, isSt := rr.(*ssa.Store); isSt && st.Addr == x {
						return nil, false // field-wise write
					}
					if _, isLoad := rr.(*ssa.UnOp); !isLoad {
						if _, dbg := rr.(*ssa.DebugRef); !dbg {
							return nil, false
						}
					}
				}
			}
		default:
			return nil, false
		}
	}
	return vals, len(vals) > 0
}

// c02FieldOf matches a load of field fv whose base is a value matching base,
// either directly (field of an extracted struct) or through a local variable
// that is only ever assigned such values as a whole.
func c02FieldOf(fv *types.Var, base Pat) Pat {
	return func(e *Expr) bool {
		e = strip(e)
		if e == nil || e.K != EField || fv == nil || e.Var != fv || e.X == nil {
			return false
		}
		b := strip(e.X)
		if base(b) {
			return true
		}
		if al, ok := b.V.(*ssa.Alloc); ok && b.K == EAlloc {
			vals, ok := c02WholeStores(al)
			if !ok {
				return false
			}
			for _, v := range vals {
				if !base(Desc(v)) {
					return false
				}
			}
			return true
		}
		return false
	}
}

// c02FieldPath matches x.<f1>.<f2>… (loads through embedded/ nested structs):
// the innermost selected field is fs[len-1], its base's field fs[len-2], ….
func c02FieldPath(fs ...*types.Var) Pat {
	return func(e *Expr) bool {
		for i := len(fs) - 1; i >= 0; i-- {
			e = strip(e)
			if e == nil || e.K != EField || fs[i] == nil || e.Var != fs[i] {
				return false
			}
			e = e.X
		}
		return true
	}
}

// c02PhiConstPreds returns, for a boolean value v built from phis, the
// terminators of the predecessor blocks that feed the constant `want` into it
// (recursively through nested phis).  ok=false when v contains an incoming
// value that is neither a boolean constant nor a phi (then the caller must
// treat that value itself).
func c02PhiConstPreds(v ssa.Value, want bool) (terms []ssa.Instruction, others []ssa.Value) {
	seen := map[ssa.Value]bool{}
	var walk func(v ssa.Value, from *ssa.BasicBlock)
	walk = func(v ssa.Value, from *ssa.BasicBlock) {
		switch x := v.(type) {
		case *ssa.Const:
			if x.Value != nil && x.Value.Kind() == constant.Bool && constant.BoolVal(x.Value) == want && from != nil && len(from.Instrs) > 0 {
				terms = append(terms, from.Instrs[len(from.Instrs)-1])
			}
		case *ssa.Phi:
			if seen[x] {
				return
			}
			seen[x] = true
			for i, ed := range x.Edges {
				walk(ed, x.Block().Preds[i])
			}
		default:
			others = append(others, v)
		}
	}
	walk(v, nil)
	return
}

// c02LeavesPat matches a value all of whose origins (through phis and cells)
// match one of allowed, and which has at least one origin matching each of
// required.
func c02LeavesPat(allowed []Pat, required []Pat) Pat {
	return func(e *Expr) bool {
		leaves := Origins(e, nil)
		if len(leaves) == 0 {
			return false
		}
		got := make([]bool, len(required))
		for _, l := range leaves {
			okL := false
			for _, a := range allowed {
				if a(l) {
					okL = true
					break
				}
			}
			if !okL {
				return false
			}
			for i, r := range required {
				if r(l) {
					got[i] = true
				}
			}
		}
		for _, g := range got {
			if !g {
				return false
			}
		}
		return true
	}
}

// c02AndPhi matches the value of `a && … && last` (a phi whose constant edges
// are all false) whose final operand matches last; also the bare operand.
func c02AndPhi(last Pat) Pat {
	return func(e *Expr) bool {
		e = strip(e)
		if e == nil {
			return false
		}
		if e.K != EPhi {
			return false
		}
		found := false
		for _, a := range e.Args {
			switch {
			case IsConstBool(false)(a):
			case last(a):
				found = true
			default:
				return false
			}
		}
		return found
	}
}

// c02OrPhi matches the value of `a || … || last` (constant edges all true).
// atoms must each be the branch condition of a predecessor that supplies one
// of the constant true edges, or match the final operand.
func c02OrPhi(atoms ...Pat) Pat {
	return func(e *Expr) bool {
		e = strip(e)
		if e == nil || e.K != EPhi {
			return false
		}
		phi, ok := e.V.(*ssa.Phi)
		if !ok {
			return false
		}
		var conds []*Expr
		for i, ed := range phi.Edges {
			if cst, ok := ed.(*ssa.Const); ok {
				if cst.Value == nil || cst.Value.Kind() != constant.Bool || !constant.BoolVal(cst.Value) {
					return false
				}
				pred := phi.Block().Preds[i]
				iff, ok := pred.Instrs[len(pred.Instrs)-1].(*ssa.If)
				if !ok || pred.Succs[0] != phi.Block() {
					return false
				}
				a, pol := Truthy(condOf(iff))
				if !pol {
					return false
				}
				conds = append(conds, a)
				continue
			}
			conds = append(conds, Desc(ed))
		}
		for _, want := range atoms {
			m := false
			for _, cnd := range conds {
				if want(cnd) {
					m = true
					break
				}
			}
			if !m {
				return false
			}
		}
		return true
	}
}

// c02ErrTest finds the branch that tests the error value v (the call itself
// or the extract of its last result) and returns the entry point of its
// non-nil edge.
func c02ErrEdge(fn *ssa.Function, v ssa.Value) []Point {
	var out []Point
	for _, f := range WithAnons(fn) {
		for _, b := range f.Blocks {
			if len(b.Instrs) == 0 {
				continue
			}
			iff, ok := b.Instrs[len(b.Instrs)-1].(*ssa.If)
			if !ok {
				continue
			}
			a, pol := Truthy(condOf(iff))
			if a == nil || a.V != v {
				continue
			}
			if pol {
				out = append(out, Point{b.Succs[0], 0})
			} else {
				out = append(out, Point{b.Succs[1], 0})
			}
		}
	}
	return out
}

// c02ErrValue returns the SSA value carrying the error result of call in
// (single result: the call; tuple: the extract of the last component).
func c02ErrValue(in ssa.Instruction) ssa.Value {
	cl, ok := in.(*ssa.Call)
	if !ok {
		return nil
	}
	tup, isTuple := cl.Type().(*types.Tuple)
	if !isTuple {
		return cl
	}
	if cl.Referrers() == nil {
		return nil
	}
	for _, r := range *cl.Referrers() {
		if ex, ok := r.(*ssa.Extract); ok && ex.Index == tup.Len()-1 {
			return ex
		}
	}
	return nil
}

// c02TypeArgs returns the constant uint16 values of a variadic pack / slice
// literal argument (typesSet's types…, ExtractRRSet's t…), plus descriptions
// of the non-constant members.
func c02PackMembers(v ssa.Value) (consts []int64, others []*Expr) {
	e := strip(Desc(v))
	if e == nil {
		return nil, nil
	}
	if e.K != EMake {
		return nil, []*Expr{e}
	}
	for _, a := range e.Args {
		if n, ok := constInt(a); ok {
			consts = append(consts, n)
		} else {
			others = append(others, a)
		}
	}
	return
}

func c02IntSet(xs []int64) string {
	m := map[string]bool{}
	for _, x := range xs {
		m[fmt.Sprint(x)] = true
	}
	return setString(m)
}

func c02SameInts(a []int64, b ...int64) bool {
	if len(a) != len(b) {
		return false
	}
	m := map[int64]int{}
	for _, x := range a {
		m[x]++
	}
	for _, x := range b {
		m[x]--
	}
	for _, n := range m {
		if n != 0 {
			return false
		}
	}
	return true
}

// c02MapUpdateSites lists the map insertions (not deletes) whose map operand
// is a load of field fv, over the whole module.
func c02MapUpdateSites(c *Ctx, fv *types.Var) []Site {
	var out []Site
	for _, fn := range c.P.RepoFuncs() {
		for _, b := range fn.Blocks {
			for _, in := range b.Instrs {
				mu, ok := in.(*ssa.MapUpdate)
				if !ok {
					continue
				}
				if FieldIs(fv)(Desc(mu.Map)) {
					out = append(out, Site{Fn: fn, Instr: in, Kind: "map insert"})
				}
			}
		}
	}
	return out
}

func c02InPkg(fn *ssa.Function, rel string) bool {
	pk := fnPkg(fn)
	return pk != nil && pk.Path() == modPath+"/"+rel
}

func c02NotConst(p Pat) Pat { return func(e *Expr) bool { return !IsAnyConst(e) && p(e) } }

var _ = token.EQL
var _ = strings.Join

// c02IsNegativeValue finds the single boolean SSA value of fn that is branched
// on and is built (through && / ||) from the comparison <msg>.Rcode == NXDOMAIN:
// Resolver.authority's isNegative.  More than one such value is undecided.
func c02IsNegativeValue(c *Ctx, fn *ssa.Function, fRcode *types.Var) ssa.Value {
	var found ssa.Value
	for _, b := range fn.Blocks {
		if len(b.Instrs) == 0 {
			continue
		}
		iff, ok := b.Instrs[len(b.Instrs)-1].(*ssa.If)
		if !ok {
			continue
		}
		phi, ok := iff.Cond.(*ssa.Phi)
		if !ok {
			continue
		}
		hit := false
		for _, a := range c02PhiCondAtoms(&Expr{V: phi}) {
			if m, _ := CmpMatch(a, FieldIs(fRcode), token.EQL, IsConstInt(3)); m {
				hit = true
			}
		}
		if !hit {
			continue
		}
		if found != nil && found != ssa.Value(phi) {
			c.undecided("C02-R3", "C02-R3|"+fnKey(fn)+"|isNegative", iff.Pos(), "more than one negative-response predicate in "+fnKey(fn))
			return nil
		}
		found = phi
	}
	if found == nil {
		c.unresolved("C02-R3", fnKey(fn)+"|isNegative", "no branch on a value built from Rcode == NXDOMAIN")
	}
	return found
}

// c02TrueSource is one way a boolean value built from phis can become true:
// a constant true fed in over the edge leaving Term, or a non-constant operand
// Residual fed in over that edge (the value is then true exactly when Residual is).
type c02TrueSource struct {
	Term     ssa.Instruction // terminator of the feeding predecessor (nil: the value is not a phi)
	Residual ssa.Value
}

func c02TrueSources(v ssa.Value) []c02TrueSource {
	var out []c02TrueSource
	seen := map[ssa.Value]bool{}
	var walk func(v ssa.Value, from *ssa.BasicBlock)
	walk = func(v ssa.Value, from *ssa.BasicBlock) {
		var term ssa.Instruction
		if from != nil && len(from.Instrs) > 0 {
			term = from.Instrs[len(from.Instrs)-1]
		}
		switch x := v.(type) {
		case *ssa.Const:
			if x.Value != nil && x.Value.Kind() == constant.Bool && constant.BoolVal(x.Value) {
				out = append(out, c02TrueSource{Term: term})
			}
		case *ssa.Phi:
			if seen[x] {
				return
			}
			seen[x] = true
			for i, ed := range x.Edges {
				walk(ed, x.Block().Preds[i])
			}
		default:
			out = append(out, c02TrueSource{Term: term, Residual: v})
		}
	}
	walk(v, nil)
	return out
}

// c02Subst clones e replacing the parameters of fn by the given argument
// descriptions (receiver = argument 0, as in go/ssa).
func c02Subst(e *Expr, fn *ssa.Function, args []*Expr) *Expr {
	if e == nil {
		return nil
	}
	if e.K == EParam {
		if p, ok := e.V.(*ssa.Parameter); ok && p.Parent() == fn && e.Idx >= 0 && e.Idx < len(args) {
			return args[e.Idx]
		}
	}
	n := *e
	n.X = c02Subst(e.X, fn, args)
	n.Y = c02Subst(e.Y, fn, args)
	if len(e.Args) > 0 {
		n.Args = make([]*Expr, len(e.Args))
		for i, a := range e.Args {
			n.Args[i] = c02Subst(a, fn, args)
		}
	}
	return &n
}

// c02OriginsThroughHelpers is Origins that additionally looks through calls to
// functions of the analysed module for which stop is false: such a helper is
// replaced by what it returns, with its parameters substituted by the call's
// arguments.  A value extracted into (or inlined from) a small helper thereby
// has the same origins as before the refactoring.
func c02OriginsThroughHelpers(e *Expr, stop Pat, depth int) []*Expr {
	var out []*Expr
	for _, l := range Origins(e, nil) {
		ls := strip(l)
		idx := 0
		call := ls
		if ls != nil && ls.K == EExtract {
			idx = ls.Idx
			call = strip(ls.X)
		}
		if depth >= 3 || call == nil || call.K != ECall || call.SFn == nil || len(call.SFn.Blocks) == 0 || stop(call) {
			out = append(out, l)
			continue
		}
		pk := fnPkg(call.SFn)
		if pk == nil || !(pk.Path() == modPath || strings.HasPrefix(pk.Path(), modPath+"/")) {
			out = append(out, l)
			continue
		}
		n := 0
		for _, b := range call.SFn.Blocks {
			for _, in := range b.Instrs {
				r, ok := in.(*ssa.Return)
				if !ok || idx >= len(r.Results) {
					continue
				}
				n++
				out = append(out, c02OriginsThroughHelpers(c02Subst(Desc(r.Results[idx]), call.SFn, call.Args), stop, depth+1)...)
			}
		}
		if n == 0 {
			out = append(out, l)
		}
	}
	return out
}

// c02Either: a barrier edge that is any of the given edge barriers (the same
// guard spelled inline or through a named boolean).
func c02Either(name string, bs ...Barrier) Barrier {
	return Barrier{Name: name, Edge: func(cnd *Expr) (bool, int) {
		for _, b := range bs {
			if b.Edge == nil {
				continue
			}
			if m, which := b.Edge(cnd); m {
				return true, which
			}
		}
		return false, 0
	}}
}

// ---------------------------------------------------------------------------
// Guards through named booleans (round 2).
//
// `if !a && !b { publish }`, `x := a || b; if !x { publish }` and
// `x := a || b; y := c || d; if !x && !y { publish }` protect the publish by
// the same four atoms, but only in the first spelling is every atom a branch
// of its own: in the others the last operand of each || is a VALUE flowing
// into a phi, and the phi is tested far from where it was built.  c02Deep
// lifts an edge barrier over that: the edge "v is true/false" of a branch is
// the barrier's edge when v being true/false IMPLIES the barrier's own edge —
//   v = !u                  : u false/true implies it;
//   v = phi (&&/|| join)    : every incoming edge that can deliver that truth
//                             value implies it, where an edge delivers either a
//                             constant (then the branch decisions that lead to
//                             the feeding block — its single-predecessor chain —
//                             are the facts) or an operand (its own truth, plus
//                             the same chain facts);
//   otherwise               : v's own branch edge is the barrier's edge.

func c02Implies(v ssa.Value, truth bool, leaf EdgeSpec, depth int) bool {
	if v == nil || depth > 12 {
		return false
	}
	if m, which := leaf(Desc(v)); m && (which == 0) == truth {
		return true
	}
	switch x := v.(type) {
	case *ssa.UnOp:
		if x.Op == token.NOT {
			return c02Implies(x.X, !truth, leaf, depth+1)
		}
	case *ssa.Phi:
		if bt, ok := x.Type().Underlying().(*types.Basic); !ok || bt.Info()&types.IsBoolean == 0 {
			return false
		}
		any := false
		for i, ed := range x.Edges {
			if k, ok := ed.(*ssa.Const); ok {
				if k.Value == nil || k.Value.Kind() != constant.Bool || constant.BoolVal(k.Value) != truth {
					continue // this edge cannot deliver the truth value
				}
			}
			any = true
			if _, isConst := ed.(*ssa.Const); !isConst && c02Implies(ed, truth, leaf, depth+1) {
				continue
			}
			if c02ChainImplies(x.Block().Preds[i], x.Block(), leaf, depth+1) {
				continue
			}
			return false
		}
		return any
	}
	return false
}

// c02ChainImplies: do the branch decisions that necessarily precede the edge
// from→to (from's own terminator, then up the chain of single predecessors)
// include the barrier's edge?
func c02ChainImplies(from, to *ssa.BasicBlock, leaf EdgeSpec, depth int) bool {
	for steps := 0; steps < 16 && from != nil; steps++ {
		if len(from.Instrs) > 0 {
			if iff, ok := from.Instrs[len(from.Instrs)-1].(*ssa.If); ok {
				k := -1
				for i, s := range from.Succs {
					if s == to {
						k = i
					}
				}
				if k >= 0 && from.Succs[0] != from.Succs[1] && c02Implies(iff.Cond, k == 0, leaf, depth+1) {
					return true
				}
			}
		}
		if len(from.Preds) != 1 {
			return false
		}
		to, from = from, from.Preds[0]
	}
	return false
}

// c02Deep lifts an edge barrier over negations and named booleans.
func c02Deep(b Barrier) Barrier {
	if b.Edge == nil {
		return b
	}
	leaf := b.Edge
	return Barrier{Name: b.Name, Instr: b.Instr, Edge: func(cnd *Expr) (bool, int) {
		if m, which := leaf(cnd); m {
			return m, which
		}
		if cnd == nil || cnd.V == nil {
			return false, 0
		}
		if c02Implies(cnd.V, true, leaf, 0) {
			return true, 0
		}
		if c02Implies(cnd.V, false, leaf, 0) {
			return true, 1
		}
		return false, 0
	}}
}
