package main

// C01 round 2: R10 (the composite AD verdict takes in every hop, whatever else
// is true of that hop) and R11 (a record is excused from the signature
// requirement only on grounds that lie inside the signer zone).

import (
	"fmt"
	"go/types"
	"strings"

	"golang.org/x/tools/go/ssa"
)

// c01BlockReaches: b2 is reachable from b1 by following at least one CFG edge.
func c01BlockReaches(b1, b2 *ssa.BasicBlock) bool {
	seen := map[*ssa.BasicBlock]bool{}
	st := append([]*ssa.BasicBlock{}, b1.Succs...)
	for len(st) > 0 {
		b := st[len(st)-1]
		st = st[:len(st)-1]
		if seen[b] {
			continue
		}
		seen[b] = true
		if b == b2 {
			return true
		}
		st = append(st, b.Succs...)
	}
	return false
}

// c01BackEdges: indices of the incoming edges of ph that are loop back edges
// (the phi's block dominates the predecessor).
func c01BackEdges(ph *ssa.Phi) []int {
	var back []int
	for k, pred := range ph.Block().Preds {
		if ph.Block().Dominates(pred) {
			back = append(back, k)
		}
	}
	return back
}

// c01FoldLeaves walks v through phis: loop-header phis are returned as
// accumulators (not descended), the constant false is skipped, everything else
// is `other`.
func c01FoldLeaves(v ssa.Value) (accs []*ssa.Phi, other []ssa.Value) {
	seen := map[ssa.Value]bool{}
	var walk func(v ssa.Value)
	walk = func(v ssa.Value) {
		if v == nil || seen[v] {
			return
		}
		seen[v] = true
		if ph, ok := v.(*ssa.Phi); ok {
			if len(c01BackEdges(ph)) > 0 {
				accs = append(accs, ph)
				return
			}
			for _, ed := range ph.Edges {
				walk(ed)
			}
			return
		}
		if IsConstBool(false)(Desc(v)) {
			return
		}
		other = append(other, v)
	}
	walk(v)
	return
}

// c01SegBit matches a load of wireChaseSegment.ad of the segment selected by a
// non-constant index (this iteration's segment, not a fixed hop).
func c01SegBit(segAD *types.Var) Pat {
	return func(e *Expr) bool {
		e = strip(e)
		if e == nil || e.K != EField || e.Var != segAD || e.X == nil {
			return false
		}
		x := e.X
		return x.K == EIndex && !IsAnyConst(x.Y)
	}
}

// c01CheckFold decides whether the loop-header phi acc is a running
// conjunction of the per-segment AD bits that is updated on every path through
// an iteration: it starts from a boolean constant, and each loop-carried value
// is the constant false, this segment's AD bit, or the previous verdict kept
// only across "this segment's AD bit is true" or "the verdict is already
// false".  Returns "" when it is, else what is wrong.
func c01CheckFold(c *Ctx, acc *ssa.Phi, segAD *types.Var) string {
	segBit := c01SegBit(segAD)
	keepOK := []Barrier{OnTrue("this segment's AD bit", segBit), OnFalse("verdict already false", c01ValueIs(acc))}
	header := acc.Block()
	back := map[int]bool{}
	for _, k := range c01BackEdges(acc) {
		back[k] = true
	}
	for k, ed := range acc.Edges {
		if !back[k] && !IsAnyConst(Desc(ed)) {
			return "the running verdict does not start from a constant: " + trunc(Desc(ed).String(), 160)
		}
	}
	var starts []Point
	for _, s := range header.Succs {
		if header.Dominates(s) && c01BlockReaches(s, header) {
			starts = append(starts, Point{s, 0})
		}
	}
	r := reach(starts, keepOK, func(in ssa.Instruction) bool { return in.Block() == header })
	bad := ""
	walked := map[ssa.Value]bool{}
	var carry func(v ssa.Value, via *ssa.Phi, idx int)
	carry = func(v ssa.Value, via *ssa.Phi, idx int) {
		if bad != "" {
			return
		}
		if v == ssa.Value(acc) {
			pred := via.Block().Preds[idx]
			term := pred.Instrs[len(pred.Instrs)-1]
			guarded := false
			if iff, ok := term.(*ssa.If); ok && pred.Succs[0] != pred.Succs[1] {
				for _, b := range keepOK {
					if m, which := b.Edge(condOf(iff)); m && pred.Succs[which] == via.Block() {
						guarded = true
					}
				}
			}
			if !guarded && !r.visited[term] {
				guarded = true
			}
			if !guarded {
				bad = fmt.Sprintf("on a path through an iteration (via %s) the previous verdict is kept without looking at this segment's AD bit: an AD=0 hop on that path does not clear AD", c.P.pos(instrPos(term)))
			}
			return
		}
		if ph, ok := v.(*ssa.Phi); ok {
			if walked[v] {
				return
			}
			walked[v] = true
			for j, ed := range ph.Edges {
				carry(ed, ph, j)
			}
			return
		}
		e := Desc(v)
		if IsConstBool(false)(e) || segBit(e) {
			return
		}
		bad = "the verdict can take a value other than {false, this segment's AD bit, the previous verdict}: " + trunc(e.String(), 160)
	}
	for k := range acc.Edges {
		if back[k] {
			carry(acc.Edges[k], acc, k)
		}
	}
	return bad
}

// c01ChaseVerdict matches a value that is false or the running verdict of a
// checked per-segment fold (used by R1/R6 to recognise the merged AD whatever
// shape the fold is written in).
func c01ChaseVerdict(c *Ctx, segAD *types.Var) Pat {
	return func(e *Expr) bool {
		e = strip(e)
		if e == nil || e.V == nil {
			return false
		}
		accs, other := c01FoldLeaves(e.V)
		if len(accs) == 0 || len(other) > 0 {
			return false
		}
		for _, a := range accs {
			if c01CheckFold(c, a, segAD) != "" {
				return false
			}
		}
		return true
	}
}

func c01R10(c *Ctx) {
	const R = "C01-R10"
	c.Doc(R, "composeWireChase: the running AD verdict that ends in WireInfo.AuthenticatedData / the ClearAD decision is updated on EVERY path through an iteration of the segment loop: each loop-carried value of the accumulator is the constant false, that segment's stored AD bit, or the previous verdict carried over only across the true edge of that segment's AD bit (or when it is already false) — no other condition (signatures present, hop kind, position) lets a hop's AD=0 go unnoticed")
	fn := c.fn(R, "middleware/cache.composeWireChase")
	wiAD := c.field(R, "middleware.WireInfo.AuthenticatedData")
	segAD := c.field(R, "middleware/cache.wireChaseSegment.ad")
	if fn == nil || wiAD == nil || segAD == nil {
		return
	}
	n := 0
	seen := map[*ssa.Phi]bool{}
	var accs []*ssa.Phi
	for _, s := range c.StoreSites(wiAD) {
		if TopLevel(s.Fn) != fn {
			continue
		}
		n++
		as, other := c01FoldLeaves(s.Val)
		for _, o := range other {
			c.violation(R, R+"|composeWireChase|stored verdict", instrPos(s.Instr), "WireInfo.AuthenticatedData can take a value that is not the per-segment fold: "+trunc(Desc(o).String(), 160))
		}
		for _, a := range as {
			if !seen[a] {
				seen[a] = true
				accs = append(accs, a)
			}
		}
	}
	if n == 0 {
		c.unresolved(R, "composeWireChase|WireInfo.AuthenticatedData", "no store of the merged verdict found")
		return
	}
	if len(accs) == 0 {
		c.unresolved(R, "composeWireChase|running verdict", "the stored verdict is not carried around a loop (no accumulator found): the per-segment fold cannot be checked")
		return
	}
	for _, a := range accs {
		key := R + "|composeWireChase|every iteration folds its segment's AD"
		if bad := c01CheckFold(c, a, segAD); bad != "" {
			c.violation(R, key, a.Pos(), bad)
		} else {
			c.ok(R, key, a.Pos(), "each loop-carried value of the verdict is false, segs[i].ad, or the old verdict behind segs[i].ad=true / verdict=false")
		}
	}
	c.Floor(R, 1)
}

func c01R11(c *Ctx) {
	const R = "C01-R11"
	c.Doc(R, "verifyRRSIGWithWork: the DNAME set that may excuse an unsigned (synthesised) CNAME from the signature requirement is built only from records whose owner lies in the signer zone — every append to it is behind NameInZone(<that record's owner>, <the zone collect() filters by>)=true — so whatever vouches for an exemption is itself an in-zone RRset that must verify; the set reaches isSynthesizedCNAME unchanged")
	p := c01Sec + "."
	fn := c.fn(R, p+"verifyRRSIGWithWork")
	isSynth := c.fobj(R, p+"isSynthesizedCNAME")
	nameInZone := c.fobj(R, "internal/dnsutil.NameInZone")
	ownerF := c.field(R, "github.com/miekg/dns.RR_Header.Name")
	if fn == nil || isSynth == nil || nameInZone == nil || ownerF == nil {
		return
	}
	// the zone the collecting closure filters by
	zone := ""
	for _, a := range fn.AnonFuncs {
		for _, in := range instrsWhere(a, isPlainCallTo(nameInZone)) {
			if hasMapUpdate(a) {
				zone = Desc(callArg(in, 1)).String()
			}
		}
	}
	if zone == "" {
		c.unresolved(R, "verifyRRSIGWithWork|collect zone", "no NameInZone filter in the collecting closure")
		return
	}
	isDNAMESlice := func(t types.Type) bool {
		sl, ok := t.Underlying().(*types.Slice)
		if !ok {
			return false
		}
		pt, ok := sl.Elem().(*types.Pointer)
		if !ok {
			return false
		}
		n, ok := pt.Elem().(*types.Named)
		return ok && n.Obj().Name() == "DNAME" && n.Obj().Pkg() != nil && strings.HasSuffix(n.Obj().Pkg().Path(), "miekg/dns")
	}
	isAppendDNAME := func(in ssa.Instruction) bool {
		cl, ok := in.(*ssa.Call)
		if !ok {
			return false
		}
		b, ok := cl.Call.Value.(*ssa.Builtin)
		return ok && b.Name() == "append" && isDNAMESlice(cl.Type())
	}
	// (a) the set handed to the exemption test is the append-built one
	nUse := 0
	for _, f := range WithAnons(fn) {
		for _, in := range instrsWhere(f, isPlainCallTo(isSynth)) {
			if in.Parent() != f {
				continue
			}
			nUse++
			key := R + "|verifyRRSIGWithWork|exemption set origin"
			leaves := Origins(Desc(callArg(in, 1)), func(x *Expr) []int {
				call := x
				if x.K == EExtract {
					call = x.X
				}
				if call.K == ECall && call.Method == "builtin.append" {
					return []int{0}
				}
				return nil
			})
			bad := ""
			for _, l := range leaves {
				if !(l.K == EMake || IsNilConst(l) || (l.K == EAlloc && len(l.Args) == 0)) {
					bad = l.String()
				}
			}
			if bad != "" {
				c.violation(R, key, instrPos(in), "the DNAME set consulted for the exemption is not (only) the set built by the guarded appends: "+trunc(bad, 160))
			} else {
				c.ok(R, key, instrPos(in), "isSynthesizedCNAME sees the append-built DNAME set")
			}
		}
	}
	if nUse == 0 {
		c.unresolved(R, "verifyRRSIGWithWork|isSynthesizedCNAME", "exemption test not found")
	}
	// (b) every append is behind the signer-zone test of the very record appended
	nApp := 0
	for _, f := range WithAnons(fn) {
		for _, in := range instrsWhere(f, isAppendDNAME) {
			if in.Parent() != f {
				continue
			}
			nApp++
			cl := in.(*ssa.Call)
			elems := map[ssa.Value]bool{}
			exprValues(Desc(cl.Call.Args[1]), elems)
			key := R + "|verifyRRSIGWithWork|DNAME admitted to the exemption set"
			guard := OnTrue("NameInZone(owner, signerZone)", func(e *Expr) bool {
				e = strip(e)
				if e == nil || !CallTo(nameInZone)(e) || len(e.Args) != 2 || e.Args[1].String() != zone {
					return false
				}
				isElem := func(x *Expr) bool {
					if x == nil || x.V == nil || !elems[x.V] {
						return false
					}
					switch x.V.Type().Underlying().(type) {
					case *types.Pointer, *types.Interface: // the appended *dns.DNAME, or the dns.RR it was asserted from
						return true
					}
					return false
				}
				// the tested name is the owner name (RR_Header.Name) of the very record appended
				return Contains(func(x *Expr) bool { return FieldIs(ownerF)(x) && Contains(isElem)(strip(x).X) })(e.Args[0])
			})
			if ug, tr := c.unguarded(in, []Barrier{guard}, fn); ug {
				c.violation(R, key, instrPos(in), "a DNAME enters the set that excuses unsigned CNAMEs without its owner being tested against the signer zone: an unvalidated out-of-zone DNAME (skipped as a referral remnant in the authority section) can license a forged in-zone CNAME; path "+tr)
			} else {
				c.ok(R, key, instrPos(in), "append behind NameInZone(owner of the appended record, signer zone)=true")
			}
		}
	}
	if nApp == 0 {
		c.unresolved(R, "verifyRRSIGWithWork|DNAME appends", "no append to a []*dns.DNAME found")
	}
	c.Floor(R, 2)
}

func hasMapUpdate(f *ssa.Function) bool {
	for _, b := range f.Blocks {
		for _, in := range b.Instrs {
			if _, ok := in.(*ssa.MapUpdate); ok {
				return true
			}
		}
	}
	return false
}
