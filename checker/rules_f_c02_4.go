package main

// F-C02-4 / C02-R14 — an answer section is accepted as the positive outcome of a
// question only after it was restricted to the question's TYPE.
//
// Resolver.resolve routes every reply whose answer section is non-empty to
// Resolver.answer, which validates what is PRESENT, sets AD and returns.  The
// denial validator (Resolver.authority — the only place that demands NSEC/NSEC3
// for "this type is not here") runs only when the answer section is empty.  A
// reply that carries only a genuinely signed RRset of ANOTHER type of the asked
// name (A when AAAA was asked) therefore becomes an authenticated "no AAAA" with
// no denial proof at all: a type that is present is reported absent.
//
// Necessary condition, decided on the SSA CFG (nothing is executed):
//   every call of Resolver.answer (discovered through the callee) is reachable
//   from the entry of its function only on paths that
//     (a) execute a call — whose result is used — of a module function G that is
//         given the reply's answer section (an argument that reads dns.Msg.Answer)
//         and the question's type (an argument that reads dns.Question.Qtype, or
//         the dns.Question itself / a pointer to it, whose Qtype field G reads), and
//         in which a record's type (RR_Header.Rrtype / RRSIG.TypeCovered, also
//         merged in a phi) is compared (==, != or a switch case) with exactly that
//         parameter — directly or in an unexported helper the parameter (and the
//         record type) is handed to — and the comparison decides a branch; or
//     (b) carry the fact "len(msg.Answer) > 0 is false" / "len(msg.Answer) == 0"
//         (nothing to filter).
//   An unexported same-package helper that wraps (a)/(b) is seen through by the
//   engine's helper summaries.
//
// Not decided (value level): that the comparison drops exactly the RRsets that do
// not answer the question (CNAME kept, ANY/RRSIG exempt).

import (
	"go/token"
	"go/types"

	"golang.org/x/tools/go/ssa"
)

func init() {
	wrap := func(id string, extra func(c *Ctx), explain string) {
		pd := props[id]
		if pd == nil {
			return
		}
		orig := pd.Run
		pd.Run = func(c *Ctx) { orig(c); extra(c) }
		pd.Explanation += " " + explain
	}
	wrap("C02", c02R14, "R14 (added): Resolver.answer (positive classification: validate what is present, set AD) is reached only after the reply's answer section went through a filter that compares each record's type with the question's Qtype (or is empty) — an RRset of another type is never taken for the answer, so the reply falls to the NODATA validator and needs its NSEC/NSEC3.")
}

func c02R14(c *Ctx) {
	const (
		R    = "C02-R14"
		rpkg = "middleware/resolver"
		lib  = "github.com/miekg/dns"
	)
	c.Doc(R, "every call of Resolver.answer is behind a type filter of the answer section (a function given msg.Answer and Question.Qtype that branches on record type == / != that qtype) or behind len(msg.Answer) > 0 being false — a reply holding only another type's RRset is a NODATA and must go through the denial checks")

	answerFn := c.fobj(R, rpkg+".(*Resolver).answer")
	answerF := c.field(R, lib+".Msg.Answer")
	qtypeF := c.field(R, lib+".Question.Qtype")
	rrtypeF := c.field(R, lib+".RR_Header.Rrtype")
	coveredF := c.field(R, lib+".RRSIG.TypeCovered")
	if answerFn == nil || answerF == nil || qtypeF == nil || rrtypeF == nil || coveredF == nil {
		return
	}
	questionT := c.P.TypeName(lib + ".Question")
	if questionT == nil {
		c.unresolved(R, "dns.Question", "type not found")
		return
	}
	// isQuestion: dns.Question or *dns.Question
	isQuestion := func(t types.Type) bool {
		if p, ok := t.(*types.Pointer); ok {
			t = p.Elem()
		}
		n, ok := t.(*types.Named)
		return ok && n.Obj() == questionT
	}
	readsAnswer := Contains(FieldIs(answerF))
	readsQtype := Contains(FieldIs(qtypeF))
	recType := Contains(FieldIs(rrtypeF, coveredF))

	// decidesBranch: the comparison's value reaches an If, possibly through the
	// phis / negations of a short-circuit expression or a boolean local.
	var decidesBranch func(v ssa.Value, seen map[ssa.Value]bool) bool
	decidesBranch = func(v ssa.Value, seen map[ssa.Value]bool) bool {
		if v == nil || seen[v] || v.Referrers() == nil {
			return false
		}
		seen[v] = true
		for _, ref := range *v.Referrers() {
			switch x := ref.(type) {
			case *ssa.If:
				return true
			case *ssa.Phi:
				if decidesBranch(x, seen) {
					return true
				}
			case *ssa.UnOp:
				if x.Op == token.NOT && decidesBranch(x, seen) {
					return true
				}
			case *ssa.Return:
				// a predicate helper `return covered == qtype`: its caller branches
				return true
			}
		}
		return false
	}

	// comparesWith: g (its closures, and unexported helpers the parameter is
	// passed on to) branches on  <record type> ==/!= <parameter pidx of g>.
	// recPars: parameters of g that were bound to a record type at the call
	// (the comparison was extracted into `func answers(covered, qtype uint16) bool`).
	var comparesWith func(g *ssa.Function, pidx int, recPars map[int]bool, depth int) bool
	comparesWith = func(g *ssa.Function, pidx int, recPars map[int]bool, depth int) bool {
		if g == nil || depth > 3 || pidx < 0 || pidx >= len(g.Params) {
			return false
		}
		par := g.Params[pidx]
		// the parameter itself, also read back from the local cell go/ssa spills a
		// struct parameter into (`*t0 = q` … `t0.Qtype`)
		isWholePar := func(e *Expr) bool {
			e = strip(e)
			if e == nil || e.V == nil {
				return false
			}
			if e.V == ssa.Value(par) {
				return true
			}
			if a, ok := e.V.(*ssa.Alloc); ok && a.Referrers() != nil {
				n, hit := 0, false
				for _, r := range *a.Referrers() {
					if st, ok := r.(*ssa.Store); ok && st.Addr == ssa.Value(a) {
						n++
						hit = hit || st.Val == ssa.Value(par)
					}
				}
				return hit && n == 1
			}
			return false
		}
		// isPar: the question's type as g sees it — the parameter when that is the
		// type itself, the Qtype field of the parameter when g was handed the whole
		// dns.Question (by value or by pointer)
		whole := isQuestion(par.Type())
		isPar := func(e *Expr) bool {
			e = strip(e)
			if e == nil {
				return false
			}
			if whole {
				return e.K == EField && e.Var == qtypeF && e.Op == 0 && isWholePar(e.X)
			}
			return e.V == ssa.Value(par)
		}
		isRecPar := func(e *Expr) bool {
			e = strip(e)
			if e == nil || e.V == nil {
				return false
			}
			for i := range recPars {
				if i < len(g.Params) && e.V == ssa.Value(g.Params[i]) {
					return true
				}
			}
			return false
		}
		recType := func(e *Expr) bool { return recType(e) || Contains(isRecPar)(e) }
		for _, f := range WithAnons(g) {
			for _, b := range f.Blocks {
				for _, in := range b.Instrs {
					switch x := in.(type) {
					case *ssa.BinOp:
						if x.Op != token.EQL && x.Op != token.NEQ {
							continue
						}
						dx, dy := Desc(x.X), Desc(x.Y)
						if (recType(dx) && isPar(dy)) || (recType(dy) && isPar(dx)) {
							if decidesBranch(x, map[ssa.Value]bool{}) {
								return true
							}
						}
					case *ssa.Call:
						h := localHelper(f, &x.Call)
						if h == nil {
							continue
						}
						rp := map[int]bool{}
						for j, a := range x.Call.Args {
							if d := Desc(a); !isPar(d) && recType(d) {
								rp[j] = true
							}
						}
						for j, a := range x.Call.Args {
							d := Desc(a)
							if (isPar(d) || (whole && isWholePar(d) && isQuestion(a.Type()))) && comparesWith(h, j, rp, depth+1) {
								return true
							}
						}
					}
				}
			}
		}
		return false
	}

	memo := map[*ssa.Call]bool{}
	isTypeFilterCall := func(in ssa.Instruction) bool {
		call, ok := in.(*ssa.Call)
		if !ok || call.Call.IsInvoke() {
			return false
		}
		if v, ok := memo[call]; ok {
			return v
		}
		res := false
		defer func() { memo[call] = res }()
		g := call.Call.StaticCallee()
		if g == nil || len(g.Blocks) == 0 {
			return false
		}
		if o := g.Origin(); o != nil && len(o.Blocks) > 0 {
			g = o
		}
		if p := fnPkg(g); p == nil || !c.P.inModule(p.Path()) {
			return false
		}
		if refs := call.Referrers(); refs == nil || len(*refs) == 0 {
			return false // result thrown away
		}
		hasAnswer := false
		for _, a := range call.Call.Args {
			if readsAnswer(Desc(a)) {
				hasAnswer = true
			}
		}
		if !hasAnswer {
			return false
		}
		for j, a := range call.Call.Args {
			if isQuestion(a.Type()) {
				// the whole question is handed over: the callee reads its Qtype
				if comparesWith(g, j, nil, 0) {
					res = true
					return true
				}
				continue
			}
			if _, basic := a.Type().Underlying().(*types.Basic); !basic {
				continue
			}
			if readsQtype(Desc(a)) && comparesWith(g, j, nil, 0) {
				res = true
				return true
			}
		}
		return false
	}
	filter := Barrier{Name: "answer section filtered by Question.Qtype", Instr: isTypeFilterCall}
	lenAnswer := func(e *Expr) bool {
		e = strip(e)
		return e != nil && e.K == ECall && e.Method == "builtin.len" && len(e.Args) == 1 && FieldIs(answerF)(e.Args[0])
	}
	empty := c02Deep(OnCmp("len(msg.Answer) > 0 is false", lenAnswer, token.GTR, IsConstInt(0), false))
	empty0 := c02Deep(OnCmp("len(msg.Answer) == 0", lenAnswer, token.EQL, IsConstInt(0), true))

	seen := map[*ssa.Function]bool{}
	n := 0
	for _, s := range c.CallSites(answerFn) {
		top := TopLevel(s.Fn)
		if top == nil || seen[top] {
			continue
		}
		seen[top] = true
		n += c.MustCross(R, top, "Resolver.answer (positive classification of a reply)", isCallTo(answerFn), filter, empty, empty0)
	}
	if n == 0 {
		c.unresolved(R, "Resolver.answer call sites", "no call of Resolver.answer found (rule would pass vacuously)")
	}
	c.Floor(R, 1)
}
