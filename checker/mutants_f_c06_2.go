package main

// Regression mutants for finding F-C06-2 (rule C06-R10): each re-opens the
// relay of another hop's OPT content through the repaired
// edns.ResponseWriter.WriteMsg.

func init() {
	addMutants("C06", []Mutant{
		{ID: "f-c06-2-deny-list-again", File: "middleware/edns/edns.go", Expect: "C06-R10|(*middleware/edns.ResponseWriter).WriteMsg|a response's own OPT goes on with its options reduced to the allow-list",
			Old: "\t\tif _, isEDE := o.(*dns.EDNS0_EDE); isEDE {\n\t\t\tkeep = append(keep, o)\n\t\t}\n",
			New: "\t\tif _, isCookie := o.(*dns.EDNS0_COOKIE); !isCookie {\n\t\t\tkeep = append(keep, o)\n\t\t}\n",
			Why: "the filter becomes a deny-list of the one option that made the demo fail (the second COOKIE): the upstream's NSID, padding and private options are relayed again"},
		{ID: "f-c06-2-version-word-kept", File: "middleware/edns/edns.go", Expect: "C06-R10|(*middleware/edns.ResponseWriter).WriteMsg|a response's own OPT goes on with its version/flag word cleared",
			Old: "\t\t\topt.Option = keepEDE(opt.Option)\n\t\t\topt.Hdr.Ttl = 0\n",
			New: "\t\t\topt.Option = keepEDE(opt.Option)\n",
			Why: "the upstream's EDNS version and Z bits stay in the client-facing OPT (SetDo touches one bit only): the reply advertises EDNS version 1 to a version-0 client"},
		{ID: "f-c06-2-only-when-writer-has-opt", File: "middleware/edns/edns.go", Expect: "C06-R10",
			Old: "\t\t} else if opt != w.opt {\n",
			New: "\t\t} else if opt != w.opt && w.opt != nil {\n",
			Why: "the foreign record is reduced only when the writer holds a decoded request OPT: a wire-born request (w.opt == nil until a server option needs it) relays the upstream's record untouched"},
	})
}
