package main

// Regression mutants for F-C01-7 (genuinely signed records of an unrelated owner of the same zone
// were relayed in the answer section with AD=1).
func init() {
	addMutants("C01", []Mutant{
		{ID: "c01-answer-chain-result-dropped", File: "middleware/resolver/resolver.go", Expect: "C01-R16|resolve|answer section reduced to the question's owners",
			Old: "\t\tresp.Answer = answerChain(resp.Answer, minReq.Question[0].Name, minReq.Question[0].Qtype)\n",
			New: "\t\t_ = answerChain(resp.Answer, minReq.Question[0].Name, minReq.Question[0].Qtype)\n",
			Why: "F-C01-7: the owner filter runs but the reply keeps its answer section as it came; `www CNAME real` + `evil A 6.6.6.6` is validated, relayed with AD=1 and ends the cache's alias chase"},
		{ID: "c01-answer-chain-keyed-on-zone-apex", File: "middleware/resolver/resolver.go", Expect: "C01-R16|resolve|answer section reduced to the question's owners",
			Old: "\t\tresp.Answer = answerChain(resp.Answer, minReq.Question[0].Name, minReq.Question[0].Qtype)\n",
			New: "\t\tresp.Answer = answerChain(resp.Answer, rs.servers.Zone, minReq.Question[0].Qtype)\n",
			Why: "F-C01-7: the chain is started at the asked zone's apex instead of the question's name: what is kept no longer depends on what was asked (for any question below the apex the whole answer is dropped, for the apex question every apex alias chain is kept)"},
	})
}
