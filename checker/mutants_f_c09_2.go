package main

// Regression mutants for finding F-C09-2 (rule C09-R12): each re-introduces
// "the un-revoked tag is the revoked tag minus 128" into the repaired tree.

func init() {
	addMutants("C09", []Mutant{
		{ID: "f-c09-2-autota-tag-minus-revoke", File: "middleware/resolver/auto_trust_anchor.go",
			Old:    "oldTag := unrevokedKeyTag(ta.DNSKey)",
			New:    "oldTag := tag - DNSKEYFlagRevoke",
			Expect: "C09-R12|(*middleware/resolver.Resolver).AutoTA|tag-keyed map",
			Why:    "AutoTA looks the revoked record's anchor up under tag-128 again: for a key whose RDATA sum carries (tag moves by 129) the anchor is not found, the revocation is ignored and the key stays trusted"},
		{ID: "f-c09-2-helper-subtracts", File: "middleware/resolver/auto_trust_anchor.go",
			Old:    "unrevoked := *k\n\tunrevoked.Flags &^= DNSKEYFlagRevoke\n\treturn dnssec.KeyTag(&unrevoked)",
			New:    "return dnssec.KeyTag(k) - DNSKEYFlagRevoke",
			Expect: "C09-R12|middleware/resolver.unrevokedKeyTag|key tag adjusted by -",
			Why:    "the helper all three sites share derives the un-revoked tag by subtraction instead of computing it over the un-revoked record — same defect, one place"},
	})
}
