package main

// C03-R10 (finding F-C03-2) — the authority's ECS SCOPE survives the resolver.
//
// The resolver rebuilds the additional section of an upstream reply around the
// REQUEST's OPT record.  The request's ECS option says SCOPE 0 by construction
// (RFC 7871 §6), and the cache reads SCOPE 0 as "valid for everybody".  So,
// wherever package middleware/resolver stores into M.Extra a value that
// contains ANOTHER message's OPT (R.IsEdns0() with R ≠ M, M not freshly
// allocated):
//   (i)  the stored value depends on a read of M's own EDNS Client Subnet
//        option — a type assertion to *dns.EDNS0_SUBNET over M.IsEdns0()'s
//        options / M.Extra, directly, through a same-package helper or closure
//        handed M, or through a *dns.EDNS0_SUBNET parameter that every caller
//        feeds from such a read — or the store sits behind the nil/false edge
//        of a value derived from such a read ("the reply carried no option");
//   (ii) no such read of M is reachable AFTER a store to M.Extra (the option
//        is read before the section is thrown away).
// Nothing is executed; sites are found through the field Msg.Extra and the
// callee (*Msg).IsEdns0, the reads through the asserted type.

import (
	"fmt"
	"go/types"

	"golang.org/x/tools/go/ssa"
)

func init() {
	wrap := func(id string, extra func(c *Ctx), explain string) {
		pd := props[id]
		if pd == nil {
			return
		}
		orig := pd.Run
		pd.Run = func(c *Ctx) { orig(c); extra(c) }
		pd.Explanation += " " + explain
	}
	wrap("C03", c03R10, "R10 (added, F-C03-2): wherever the resolver replaces a reply's additional section by one built around another message's OPT (the request's, whose ECS option always says SCOPE 0), the OPT it stores depends on the reply's own EDNS Client Subnet option, read before the section is discarded — otherwise every subnet-tailored answer reaches the cache as 'valid for everybody'.")
}

func c03R10(c *Ctx) { c03R10as(c, "C03-R10") }

// c03R10as runs the rule under the given rule id (the clause is claimed by two properties).
func c03R10as(c *Ctx, R string) {
	const pkg = "middleware/resolver"
	c.Doc(R, "in package middleware/resolver, every store into M.Extra of a value containing another message's OPT record (R.IsEdns0(), R ≠ M, M not a fresh allocation) stores a value that depends on M's own EDNS Client Subnet option (a *dns.EDNS0_SUBNET type assertion over M.IsEdns0().Option / M.Extra — directly, via a same-package helper or closure handed M, or via a parameter every caller feeds from such a read), and no such read of M is reachable after a store to M.Extra: the request's own ECS option says SCOPE 0, so re-attaching the request OPT alone turns an answer the authority scoped to one subnet into one the cache files under the shared key")
	extraF := c.field(R, "github.com/miekg/dns.Msg.Extra")
	isEdns0 := c.fobj(R, "github.com/miekg/dns.(*Msg).IsEdns0")
	subnetT := c.P.TypeName("github.com/miekg/dns.EDNS0_SUBNET")
	if subnetT == nil {
		c.unresolved(R, "github.com/miekg/dns.EDNS0_SUBNET", "type not found")
	}
	if extraF == nil || isEdns0 == nil || subnetT == nil {
		return
	}
	isSubnetPtr := func(t types.Type) bool {
		p, ok := t.(*types.Pointer)
		if !ok {
			return false
		}
		n, ok := p.Elem().(*types.Named)
		return ok && n.Obj() == subnetT
	}
	anyNode := func(e *Expr, pred func(*Expr) bool) bool {
		seen := map[*Expr]bool{}
		var rec func(e *Expr, d int) bool
		rec = func(e *Expr, d int) bool {
			if e == nil || d > 40 || seen[e] {
				return false
			}
			seen[e] = true
			if pred(e) {
				return true
			}
			if rec(e.X, d+1) || rec(e.Y, d+1) {
				return true
			}
			for _, a := range e.Args {
				if rec(a, d+1) {
					return true
				}
			}
			return false
		}
		return rec(e, 0)
	}
	// an OPT/option list of the message matched by isM
	ofMsg := func(isM func(*Expr) bool) func(*Expr) bool {
		return func(e *Expr) bool {
			if e == nil {
				return false
			}
			if e.K == ECall && e.Fn != nil && sameFunc(e.Fn, isEdns0) && len(e.Args) >= 1 && isM(e.Args[0]) {
				return true
			}
			return e.K == EField && e.Var == extraF && isM(e.X)
		}
	}
	isParam := func(fn *ssa.Function, idx int) func(*Expr) bool {
		return func(e *Expr) bool {
			e = strip(e)
			if e == nil || e.K != EParam || e.Idx != idx {
				return false
			}
			p, ok := e.V.(*ssa.Parameter)
			return ok && p.Parent() == fn
		}
	}
	// the callee of a call instruction when it is a function of the same package with a body
	// (declared function, method, closure or function literal)
	localCallee := func(in ssa.Instruction) (*ssa.Function, *ssa.CallCommon) {
		cl, ok := in.(*ssa.Call)
		if !ok || cl.Call.IsInvoke() {
			return nil, nil
		}
		d := Desc(cl)
		if d == nil || d.SFn == nil || len(d.SFn.Blocks) == 0 {
			return nil, nil
		}
		h := d.SFn
		if fnPkg(h) == nil || fnPkg(h) != fnPkg(in.Parent()) {
			return nil, nil
		}
		return h, &cl.Call
	}
	var readsECSOf func(fn *ssa.Function, idx int, depth int) bool
	// isRead: instruction in reads the ECS option of the message matched by isM
	isRead := func(in ssa.Instruction, isM func(*Expr) bool, depth int) bool {
		if ta, ok := in.(*ssa.TypeAssert); ok && isSubnetPtr(ta.AssertedType) {
			return anyNode(Desc(ta.X), ofMsg(isM))
		}
		if h, cc := localCallee(in); h != nil && depth < 4 {
			for k, a := range cc.Args {
				if k < len(h.Params) && isM(Desc(a)) && readsECSOf(h, k, depth+1) {
					return true
				}
			}
		}
		return false
	}
	memo := map[string]bool{}
	readsECSOf = func(fn *ssa.Function, idx int, depth int) bool {
		mk := fmt.Sprintf("%p/%d", fn, idx)
		if v, ok := memo[mk]; ok {
			return v
		}
		memo[mk] = false
		for _, f := range WithAnons(fn) {
			for _, b := range f.Blocks {
				for _, in := range b.Instrs {
					if isRead(in, isParam(fn, idx), depth) {
						memo[mk] = true
						return true
					}
				}
			}
		}
		return false
	}

	nSites := 0
	for _, fn := range c.P.FuncsInPkg(pkg) {
		for _, b := range fn.Blocks {
			for _, in := range b.Instrs {
				st, ok := in.(*ssa.Store)
				if !ok || !isFieldStore(in, extraF, nil) {
					continue
				}
				md := Desc(st.Addr.(*ssa.FieldAddr).X)
				if ms := strip(md); ms == nil || ms.K == EAlloc || ms.K == EMake || ms.K == EUnknown {
					continue // a message built here has no upstream option to lose
				}
				mStr := md.String()
				isM := func(e *Expr) bool { return e != nil && e.String() == mStr }
				vd := Desc(st.Val)
				// another message's OPT?
				other := ""
				anyNode(vd, func(e *Expr) bool {
					if e.K == ECall && e.Fn != nil && sameFunc(e.Fn, isEdns0) && len(e.Args) >= 1 && !isM(e.Args[0]) {
						other = e.Args[0].String()
						return true
					}
					return false
				})
				if other == "" {
					continue
				}
				nSites++
				top := TopLevel(fn)
				key := fmt.Sprintf("%s|%s|additional section rebuilt around another message's OPT keeps the reply's ECS option", R, fnKey(top))

				// (i) the stored value depends on a read of M's ECS option
				var depends func(vd *Expr, isM func(*Expr) bool, f *ssa.Function, mExpr *Expr, depth int) bool
				depends = func(vd *Expr, isM func(*Expr) bool, f *ssa.Function, mExpr *Expr, depth int) bool {
					if anyNode(vd, func(e *Expr) bool {
						in, ok := e.V.(ssa.Instruction)
						return ok && (e.K == ECall || e.K == ETypeAssert) && isRead(in, isM, 0)
					}) {
						return true
					}
					// a *dns.EDNS0_SUBNET parameter that every caller feeds from a read of the
					// message it passes as M
					mp := strip(mExpr)
					ftop := TopLevel(f)
					fo := funcObjOf(ftop)
					if depth >= 2 || mp == nil || mp.K != EParam || fo == nil {
						return false
					}
					found := false
					anyNode(vd, func(e *Expr) bool {
						if e.K != EParam || e.V == nil || !isSubnetPtr(e.V.Type()) || e.Idx < 0 {
							return false
						}
						sites := c.CallSites(fo)
						if len(sites) == 0 {
							return false
						}
						all := true
						for _, s := range sites {
							ma := callArg(s.Instr, mp.Idx)
							pa := callArg(s.Instr, e.Idx)
							if s.Kind != "call" || ma == nil || pa == nil {
								all = false
								break
							}
							cm := Desc(ma)
							cmStr := cm.String()
							if !depends(Desc(pa), func(x *Expr) bool { return x != nil && x.String() == cmStr }, s.Fn, cm, depth+1) {
								all = false
								break
							}
						}
						found = all
						return all
					})
					return found
				}
				valueDep := depends(vd, isM, fn, md, 0)
				if !valueDep {
					// control dependence: the plain re-attachment is reachable only across the
					// edge on which a value derived from the read is nil/false ("the reply
					// carried no ECS option")
					noOption := OnFalse("reply carries no ECS option", func(e *Expr) bool {
						return anyNode(e, func(x *Expr) bool {
							xi, ok := x.V.(ssa.Instruction)
							return ok && (x.K == ECall || x.K == ETypeAssert) && isRead(xi, isM, 0)
						})
					})
					if ug, _ := c.unguarded(in, []Barrier{noOption}, top); !ug {
						valueDep = true
					}
				}
				if !valueDep {
					c.violation(R, key, instrPos(in), fmt.Sprintf("%s.Extra is rebuilt around the OPT of %s and nothing of %s's own EDNS Client Subnet option goes into it: the request's option says SCOPE 0, so an answer the authority scoped to one subnet reaches the cache as valid for everybody", trunc(mStr, 60), trunc(other, 60), trunc(mStr, 60)))
					continue
				}
				// (ii) no read of M's option after a store to M.Extra
				late := ssa.Instruction(nil)
				for _, f := range WithAnons(top) {
					for _, b2 := range f.Blocks {
						for _, in2 := range b2.Instrs {
							if !isFieldStore(in2, extraF, nil) || Desc(in2.(*ssa.Store).Addr.(*ssa.FieldAddr).X).String() != mStr {
								continue
							}
							r := reach([]Point{pointAfter(in2)}, nil, nil)
							for _, t := range r.order {
								if isRead(t, isM, 0) {
									late = t
								}
							}
						}
					}
				}
				if late != nil {
					c.violation(R, key, instrPos(late), fmt.Sprintf("%s's EDNS Client Subnet option is read after %s.Extra has already been overwritten: the authority's SCOPE is gone by then", trunc(mStr, 60), trunc(mStr, 60)))
					continue
				}
				c.ok(R, key, instrPos(in), fmt.Sprintf("the OPT stored into %s.Extra depends on %s's own ECS option, read before the section is discarded", trunc(mStr, 60), trunc(mStr, 60)))
			}
		}
	}
	if nSites == 0 {
		c.unresolved(R, "sites", "no store into Msg.Extra of another message's OPT found in "+pkg+" (the rule would pass vacuously)")
	}
	c.Floor(R, 1)
}
