package main

import (
	"encoding/json"
	"flag"
	"fmt"
	"os"
	"path/filepath"
	"runtime/debug"
	"sort"
	"strconv"
	"strings"
	"time"
)

// PropDef is one property's rule table.
type PropDef struct {
	ID          string
	Title       string
	Run         func(c *Ctx)
	Explanation string   // clauses decided / not decided (goes to evidence)
	NotDecided  []string // ND list
	Mutants     []Mutant
}

var props = map[string]*PropDef{}

func register(p *PropDef) { props[p.ID] = p }

type knownFinding struct {
	Prop string
	Key  string
	Text string
}

func loadKnown(path string) ([]knownFinding, []string) {
	b, err := os.ReadFile(path)
	if err != nil {
		return nil, nil
	}
	var out []knownFinding
	var fixed []string
	for _, ln := range strings.Split(string(b), "\n") {
		ln = strings.TrimSpace(ln)
		if ln == "" || strings.HasPrefix(ln, "#") {
			continue
		}
		if strings.HasPrefix(ln, "fixed:") {
			fixed = append(fixed, ln)
			continue
		}
		if !strings.HasPrefix(ln, "known:") {
			continue
		}
		rest := strings.TrimSpace(ln[len("known:"):])
		kf := knownFinding{}
		// known: property=<id> key=<instance key, may contain spaces> :: <what fails>
		if i := strings.Index(rest, " :: "); i >= 0 {
			kf.Text = strings.TrimSpace(rest[i+4:])
			rest = rest[:i]
		}
		if strings.HasPrefix(rest, "property=") {
			j := strings.Index(rest, " ")
			if j < 0 {
				continue
			}
			kf.Prop = rest[len("property="):j]
			rest = strings.TrimSpace(rest[j+1:])
		}
		if strings.HasPrefix(rest, "key=") {
			kf.Key = rest[len("key="):]
			if kf.Text == "" {
				// legacy form without " :: ": the key ends at the first space
				if j := strings.Index(kf.Key, " "); j >= 0 {
					kf.Text = strings.TrimSpace(kf.Key[j+1:])
					kf.Key = kf.Key[:j]
				}
			}
		}
		out = append(out, kf)
	}
	return out, fixed
}

type configSpec struct{ GOOS, GOARCH string }

func (c configSpec) String() string { return c.GOOS + "/" + c.GOARCH }

var quickConfigs = []configSpec{{"linux", "amd64"}}
var thoroughConfigs = []configSpec{{"linux", "amd64"}, {"linux", "arm64"}, {"linux", "386"}, {"darwin", "amd64"}, {"windows", "amd64"}}

func main() {
	prop := flag.String("property", "", "property id (C01..C20)")
	tier := flag.String("tier", "quick", "quick|thorough")
	repo := flag.String("repo", "/repo", "repository working tree")
	verif := flag.String("verif", "/verif", "verif dir (evidence, known-findings)")
	verbose := flag.Bool("v", false, "print every obligation")
	mutantMode := flag.String("mutant", "", "internal: run rules with this mutant applied through an overlay, print result keys as JSON")
	noMut := flag.Bool("nomutants", false, "thorough tier without the mutation catalogue")
	listMut := flag.Bool("list-mutants", false, "list the property's mutants")
	sweep := flag.Bool("sweep", false, "development aid: load -repo once and run the rules of ALL properties against it, printing every non-ok obligation as `Cnn: key=…` (no evidence, no controls, no mutants) — used by tools/run_refactors.sh and tools/run_seeded.sh; the registered checks never use it")
	flag.Parse()
	if *sweep {
		os.Exit(runSweep(*repo, *verif))
	}
	if t := os.Getenv("VERIF_TIER"); t != "" && !isFlagSet("tier") {
		*tier = t
	}
	seed := 0
	if s := os.Getenv("VERIF_SEED"); s != "" {
		seed, _ = strconv.Atoi(s)
	}
	pd := props[*prop]
	if pd == nil {
		fmt.Fprintf(os.Stderr, "unknown property %q\n", *prop)
		os.Exit(2)
	}
	pd.Mutants = append(pd.Mutants, mutantSets[pd.ID]...)
	if *listMut {
		for _, m := range pd.Mutants {
			fmt.Printf("%s\t%s\t%s\n", m.ID, m.File, m.Expect)
		}
		return
	}
	if *mutantMode != "" {
		os.Exit(runMutantChild(pd, *repo, *mutantMode))
	}
	start := time.Now()
	evPath := filepath.Join(*verif, "evidence", pd.ID+".json")
	os.MkdirAll(filepath.Dir(evPath), 0o755)
	os.Remove(evPath)

	var all []Result
	var units []map[string]any
	var broken []string
	configs := quickConfigs
	if *tier == "thorough" {
		configs = thoroughConfigs
	}
	ruleDocs := map[string]string{}
	for _, cs := range configs {
		res, unit, docs, err := runConfig(pd, *repo, cs, nil)
		if err != nil {
			// a tree that does not load / type-check, or a rule that panics on an
			// unexpected code shape, cannot be decided: that fails the check
			// (exit 1), it is not a pass
			all = append(all, Result{Rule: pd.ID + "-LOAD", Key: pd.ID + "-LOAD|" + cs.String(), Status: StUndecided, Pos: "-", Msg: fmt.Sprintf("configuration %s could not be analysed: %v", cs, trunc(err.Error(), 1500)), Config: cs.String()})
			continue
		}
		for k, v := range docs {
			ruleDocs[k] = v
		}
		all = append(all, res...)
		units = append(units, unit)
	}
	// positive controls: the same engines on tiny known-good / known-bad code
	ctl := runControls(*verif)
	for _, cr := range ctl {
		if !cr.Pass {
			broken = append(broken, "positive control failed: "+cr.Name+": "+cr.Detail)
		}
	}
	var mut []MutantResult
	if *tier == "thorough" && !*noMut && len(pd.Mutants) > 0 {
		mut = runMutants(pd, *repo)
		for _, m := range mut {
			if m.Status == "missed" {
				broken = append(broken, "checker broken: mutant "+m.ID+" applies but is not reported ("+m.Detail+")")
			}
		}
	}

	known, _ := loadKnown(filepath.Join(*verif, "known-findings.txt"))
	isKnown := func(r Result) *knownFinding {
		for i := range known {
			if known[i].Prop == pd.ID && known[i].Key == r.Key {
				return &known[i]
			}
		}
		return nil
	}
	nOK, nViol, nKnown, nUndec := 0, 0, 0, 0
	keys := map[string]bool{}
	printedKnown := map[string]bool{}
	var bad []Result
	for _, r := range all {
		switch r.Status {
		case StOK:
			nOK++
			keys[r.Key] = true
		case StViolation:
			if kf := isKnown(r); kf != nil {
				nKnown++
				if !printedKnown[r.Key] {
					printedKnown[r.Key] = true
					fmt.Printf("KNOWN-FINDING: property=%s %s %s\n", pd.ID, r.Key, kf.Text)
				}
				continue
			}
			nViol++
			bad = append(bad, r)
		default:
			nUndec++
			bad = append(bad, r)
		}
	}
	if *verbose {
		for _, r := range all {
			fmt.Printf("  [%s] %s %s %s — %s\n", r.Status, r.Rule, r.Config, r.Pos, r.Msg)
		}
	}
	for _, r := range bad {
		fmt.Printf("  [%s] %s (%s) %s\n      %s\n      key=%s\n", r.Status, r.Rule, r.Config, r.Pos, r.Msg, r.Key)
	}
	for _, b := range broken {
		fmt.Printf("  [broken] %s\n", b)
	}
	wall := time.Since(start).Seconds()

	// evidence
	samples := []any{}
	perRule := map[string]int{}
	for _, r := range all {
		if r.Status == StOK && perRule[r.Rule] < 2 && len(samples) < 60 {
			perRule[r.Rule]++
			samples = append(samples, r)
		}
	}
	for _, r := range bad {
		if len(samples) < 90 {
			samples = append(samples, r)
		}
	}
	var rules []string
	for k := range ruleDocs {
		rules = append(rules, k)
	}
	sort.Strings(rules)
	ruleList := []map[string]any{}
	ruleCount := map[string]int{}
	for _, r := range all {
		ruleCount[r.Rule]++
	}
	for _, k := range rules {
		ruleList = append(ruleList, map[string]any{"rule": k, "statement": ruleDocs[k], "obligations": ruleCount[k]})
	}
	cov := map[string]any{
		"evaluations":         len(all),
		"distinct_nontrivial": len(keys),
		"rule":                "cases are rule instances × discovered sites (call sites, stores, returns, branch edges) of the current /repo source; distinct_nontrivial counts distinct instance keys (rule|function|construct) that had at least one site and were decided ok; an instance with no site is 'unresolved' and fails the check",
		"samples":             samples,
		"obligations":         len(all),
		"discharged":          nOK,
		"checker_cmd":         fmt.Sprintf("./bin/sdnsverif -property %s -tier %s", pd.ID, *tier),
		"trusted_base":        []string{"go1.26.8 go/types + go list", "golang.org/x/tools v0.50.0 go/packages, go/ssa", "SSA lowering of &&, ||, defer", "type-based field identity as alias model"},
		"explanation":         pd.Explanation,
		"not_decided":         pd.NotDecided,
		"rules":               ruleList,
		"units":               units,
		"positive_controls":   ctl,
		"known_findings":      nKnown,
		"exhaustive":          false,
	}
	if mut != nil {
		cov["mutants"] = mut
	}
	ev := map[string]any{
		"property_id": pd.ID,
		"tier":        *tier,
		"seed":        seed,
		"level":       "other",
		"coverage":    cov,
		"assumptions": []string{
			"static analysis only: nothing in sdns is executed; only the structural clauses named in coverage.explanation are decided, the clauses under coverage.not_decided are not",
			"reflection, unsafe and plugin-loaded middleware are outside the analysis",
			"the DNS library (miekg/dns) is trusted except where its source tables are read",
		},
		"wall_s":     wall,
		"violations": nViol + nUndec + len(broken),
	}
	b, _ := json.MarshalIndent(ev, "", " ")
	if err := os.WriteFile(evPath, b, 0o644); err != nil {
		fmt.Fprintf(os.Stderr, "cannot write evidence: %v\n", err)
		os.Exit(2)
	}
	fmt.Printf("property=%s tier=%s configs=%d obligations=%d ok=%d violations=%d undecided=%d known=%d controls=%d mutants=%d wall=%.1fs\n",
		pd.ID, *tier, len(units), len(all), nOK, nViol, nUndec, nKnown, len(ctl), len(mut), wall)
	if nViol+nUndec > 0 {
		fmt.Printf("VIOLATION property=%s replay=%s\n", pd.ID, evPath)
		os.Exit(1)
	}
	if len(broken) > 0 {
		fmt.Printf("CHECKER-BROKEN property=%s (see [broken] lines)\n", pd.ID)
		os.Exit(2)
	}
}

func isFlagSet(name string) bool {
	set := false
	flag.Visit(func(f *flag.Flag) {
		if f.Name == name {
			set = true
		}
	})
	return set
}

// runConfig loads one build configuration and runs the property's rules.
func runConfig(pd *PropDef, repo string, cs configSpec, overlay map[string][]byte) (res []Result, unit map[string]any, docs map[string]string, err error) {
	defer func() {
		if r := recover(); r != nil {
			err = fmt.Errorf("engine panic: %v\n%s", r, debug.Stack())
		}
	}()
	t0 := time.Now()
	p, lerr := Load(LoadConfig{Dir: repo, GOOS: cs.GOOS, GOARCH: cs.GOARCH, Overlay: overlay})
	if lerr != nil {
		return nil, nil, nil, lerr
	}
	nmod := 0
	for path := range p.ByPath {
		if p.inModule(path) {
			nmod++
		}
	}
	if nmod == 0 {
		return nil, nil, nil, fmt.Errorf("zero module packages loaded")
	}
	c := NewCtx(p, pd.ID, cs.String())
	pd.Run(c)
	c.checkFloors()
	unit = map[string]any{
		"config": cs.String(), "module_packages": nmod, "all_packages": len(p.ByPath), "files": p.nFiles,
		"functions": len(p.repoFuncs), "load_s": time.Since(t0).Seconds(),
	}
	return c.Results, unit, c.ruleDocs, nil
}

// runSweep: one load, every property's rules.  Prints non-ok obligations; exit 1 if any, 2 on load failure.
func runSweep(repo, verif string) int {
	// keys recorded as known findings are not alarms
	knownKeys := map[string]bool{}
	if data, err := os.ReadFile(filepath.Join(verif, "known-findings.txt")); err == nil {
		for _, ln := range strings.Split(string(data), "\n") {
			if !strings.HasPrefix(ln, "known:") {
				continue
			}
			if i := strings.Index(ln, "key="); i >= 0 {
				k := ln[i+4:]
				if j := strings.Index(k, " :: "); j >= 0 {
					k = k[:j]
				}
				knownKeys[strings.TrimSpace(k)] = true
			}
		}
	}
	p, err := Load(LoadConfig{Dir: repo, GOOS: quickConfigs[0].GOOS, GOARCH: quickConfigs[0].GOARCH})
	if err != nil {
		fmt.Printf("SWEEP load error: %v\n", err)
		return 2
	}
	var ids []string
	for id := range props {
		ids = append(ids, id)
	}
	sort.Strings(ids)
	bad := 0
	for _, id := range ids {
		pd := props[id]
		func() {
			defer func() {
				if r := recover(); r != nil {
					bad++
					fmt.Printf("%s: key=ENGINE-PANIC %v\n", id, r)
				}
			}()
			c := NewCtx(p, pd.ID, quickConfigs[0].String())
			pd.Run(c)
			c.checkFloors()
			seen := map[string]bool{}
			for _, r := range c.Results {
				if r.Status == StOK || seen[r.Key] || knownKeys[r.Key] {
					continue
				}
				seen[r.Key] = true
				bad++
				fmt.Printf("%s: key=%s\n", id, r.Key)
			}
		}()
	}
	if bad > 0 {
		return 1
	}
	return 0
}
