package main

import (
	"fmt"
	"go/ast"
	"go/token"
	"go/types"
	"sort"
	"strings"

	"golang.org/x/tools/go/ssa"
)

func init() {
	register(&PropDef{
		ID:    "C01",
		Title: "DNSSEC: validating clients get only authenticated data; AD implies authentic",
		Run:   runC01,
		Explanation: "Decided (structure of the validator's control, not of the cryptography): " +
			"R1 every non-false writer of dns.Msg AD / WireInfo.AuthenticatedData / wire.SetAD in non-test code is one of the enumerated sites and has the required origin " +
			"(answer: verifyDNSSEC/wildcard verdicts; DNAME splice: own AD && target AD; authority: NSEC3 verifier verdicts or the constant true; wire echoes: the stored header's AD; the locally validated synthesis builders; request side; bare NOTIMP); " +
			"R2 in answer/authority the AD store (and the validated-negative mark) lies behind ValidateSigner success, verifyDNSSEC's nil-error edge and its true verdict, the wildcard check, and for negative responses one of the four denial verifiers; " +
			"every DS lookup/verification for an RRSIG-derived signer lies behind ValidateSigner success; verifyDNSSEC returns true only behind DS and RRSIG verification (or the root-key check); validateDelegation accepts a verified referral as unsigned only behind a signed DS set or a delegation denial verifier; " +
			"R3 without trust anchors answer/authority/validateDelegation reach signer discovery only across hasTrustAnchors()=true (or validation off) and the other edge returns only ErrTrustAnchorsUnavailable; delegation-cache writes are behind the same guard; dsRRFromRootKeys/hasTrustAnchors fail on an empty set; " +
			"R4 at every call of the validation family the error is bound, and from its non-nil edge (and from isZoneSecure=true / provenInsecureDelegation=false) no success return is reachable except by starting a fresh candidate signer, a proven insecure delegation, or the RFC 6840 §5.2 unsupported-only arm; " +
			"R5 in DNSHandler.handle the resolver error edge returns only SetRcodeWithEDE(SERVFAIL, ErrorToEDE(err)) and the resolver's message is returned only on the nil-error edge; " +
			"R6 both definitions of ResponseWriter.noad equal CD ∨ (¬AD ∧ ¬DO); the edns writer reaches its delegate only with AD cleared or noad=false (also when truncating); the four cache serving functions clear AD toward CD=1; locally synthesised AD=1 replies are built only on the CD=0 edge; " +
			"R7 cryptoVerify/runSignatureVerification/verifySignature have exactly one caller each, the signature math lies behind the validity-period, algorithm and RRset-binding preflight and uses only usableSignatureCandidate-filtered keys, every in-zone RRset needs a verifying signature before the next one is considered, out-of-zone answer records are fatal before any signature work, and the no-work verifier entry points have no production caller; " +
			"R8 (added while reading) the upstream AD bit is reset before any validator runs, the validators are called only from the resolution loop, and resolve() hands back a message that did not pass answer()/authority() only for CD=1, validation off, a proven-unsigned verdict, or (upstream message) rcode != NXDOMAIN — on today's tree this clause reports two sites (F-C01-1, F-C01-2: bare NXDOMAIN / empty NOERROR under a signed chain served instead of SERVFAIL). " +
			"R10 (round 2) in composeWireChase every path through an iteration of the segment loop folds that segment's stored AD bit into the running verdict (no side condition lets an AD=0 hop go unnoticed); R11 (round 2) the DNAME set that excuses a synthesised CNAME from carrying an RRSIG is built only from records tested to lie in the signer zone, so what vouches for the exemption is itself verified.",
		NotDecided: []string{
			"that a verified signature is mathematically valid over the right canonical bytes (C14)",
			"that findDS / isZoneSecure / provenInsecureDelegation walk the right chain for every topology (opt-out, shared parent/child servers, key-tag collisions) — value-level decisions over zone data",
			"equality of the served RRsets with what the signer published",
			"effects of cache state across histories (an entry stored with AD under one history served in another)",
			"a change that keeps every guard in place but computes the wrong zone cut or the wrong signer is invisible to these rules",
			"AD bits set by direct byte arithmetic on a packed message (only wire.SetAD / header echoes are tracked)",
		},
	})
}

const (
	c01Res = "middleware/resolver"
	c01Sec = "middleware/resolver/dnssec"
)

func runC01(c *Ctx) {
	c01R1(c)
	c01R2(c)
	c01R3(c)
	c01R4(c)
	c01R5(c)
	c01R6(c)
	c01R7(c)
	c01R8(c)
	c01R10(c)
	c01R11(c)
}

// ---------------------------------------------------------------------------
// R1 AD provenance

func c01R1(c *Ctx) {
	const R = "C01-R1"
	c.Doc(R, "every store to dns.MsgHdr.AuthenticatedData / middleware.WireInfo.AuthenticatedData and every wire.SetAD call in non-test module code is the constant false or one of the enumerated writers with its required origin")
	adF := c.field(R, "github.com/miekg/dns.MsgHdr.AuthenticatedData")
	hdrF := c.field(R, "github.com/miekg/dns.Msg.MsgHdr")
	wiAD := c.field(R, "middleware.WireInfo.AuthenticatedData")
	segAD := c.field(R, "middleware/cache.wireChaseSegment.ad")
	setAD := c.fobj(R, "internal/wire.SetAD")
	hdrAD := c.fobj(R, "internal/wire.Header.AD")
	verifyDNSSEC := c.fobj(R, c01Res+".(*Resolver).verifyDNSSEC")
	wildcard := c.fobj(R, c01Sec+".VerifyWildcardAnswerForZoneWithWork")
	vNameErr := c.fobj(R, c01Sec+".VerifyNameErrorForZoneWithWork")
	vNodata := c.fobj(R, c01Sec+".VerifyNODATAForZoneWithWork")
	wireInfoFor := c.fobj(R, "middleware/cache.(*CacheEntry).wireInfoFor")
	if adF == nil || wiAD == nil || segAD == nil || setAD == nil || hdrAD == nil || verifyDNSSEC == nil || wildcard == nil || vNameErr == nil || vNodata == nil || wireInfoFor == nil || hdrF == nil {
		return
	}

	constTrue := func(reason string) func(Site, *Expr, string) {
		return func(s Site, e *Expr, key string) {
			if IsConstBool(true)(e) {
				c.ok(R, key, instrPos(s.Instr), "AD=true: "+reason)
			} else {
				c.violation(R, key, instrPos(s.Instr), "listed as a constant-true writer ("+reason+") but the value is "+trunc(e.String(), 200))
			}
		}
	}
	type row struct {
		check func(s Site, e *Expr, key string)
		used  bool
	}
	table := map[string]*row{
		"(*middleware/resolver.Resolver).answer": {check: func(s Site, e *Expr, key string) {
			// (a) the validation verdict, (b) the DNAME splice
			if ok, _ := c01AllLeaves(e, ResultOf(0, verifyDNSSEC), ResultOf(0, wildcard)); ok {
				if c01SomeLeaf(e, ResultOf(0, wildcard)) {
					c.ok(R, key+"|verdict", instrPos(s.Instr), "AD ← {"+c01LeafStrings(e)+"}")
				} else {
					c.violation(R, key+"|verdict", instrPos(s.Instr), "AD is assigned from verifyDNSSEC alone: the wildcard (next-closer) verdict no longer feeds it")
				}
				return
			}
			c01ConjunctionStore(c, R, key+"|splice", s, adF)
		}},
		"(*middleware/resolver.Resolver).authority": {check: func(s Site, e *Expr, key string) {
			ok, bad := c01AllLeaves(e, IsConstBool(true), IsConstBool(false), ResultOf(0, vNameErr), ResultOf(0, vNodata))
			if !ok {
				c.violation(R, key, instrPos(s.Instr), "AD has an origin outside {true, NSEC3 NXDOMAIN verdict, NSEC3 NODATA verdict}: "+strings.Join(bad, " ; "))
				return
			}
			if !c01SomeLeaf(e, ResultOf(0, vNameErr)) || !c01SomeLeaf(e, ResultOf(0, vNodata)) {
				c.violation(R, key, instrPos(s.Instr), "AD no longer takes the NSEC3 verifiers' secure verdict (opt-out spans would be reported authentic): {"+c01LeafStrings(e)+"}")
				return
			}
			c.ok(R, key, instrPos(s.Instr), "AD ← {"+c01LeafStrings(e)+"}")
		}},
		"middleware/cache.denialProofResponse":          {check: constTrue("RFC 8198 synthesis from locally validated NSEC/NSEC3 entries (C02 decides admission)")},
		"(*middleware/cache.nxDomainCutEntry).response": {check: constTrue("RFC 8020 synthesis from a validated NXDOMAIN cut")},
		"middleware/cache.nxDomainCutProof":             {check: constTrue("proof template of a validated NXDOMAIN cut (built only from a response that carried AD; C02 decides admission)")},
		"(*middleware/cache.Cache).serveCutHitFromWire": {check: constTrue("wire twin of nxDomainCutEntry.response")},
		"server/doh.HandleJSON":                         {check: constTrue("request side: the JSON API always asks for the validation state")},
		"internal/dnsutil.NotSupported":                 {check: constTrue("bare NOTIMP reply without any RRset")},
		"(*middleware/cache.CacheEntry).wireInfoFor": {check: func(s Site, e *Expr, key string) {
			if e.K != EParam || e.Name != "authData" {
				c.violation(R, key, instrPos(s.Instr), "WireInfo.AuthenticatedData is not the authData parameter: "+e.String())
				return
			}
			c.ok(R, key, instrPos(s.Instr), "WireInfo.AuthenticatedData ← parameter authData (callers checked below)")
		}},
		"middleware/cache.composeWireChase": {check: func(s Site, e *Expr, key string) {
			accs, other := c01FoldLeaves(s.Val)
			if len(other) > 0 || len(accs) == 0 {
				what := "no running verdict carried around the segment loop"
				if len(other) > 0 {
					what = trunc(Desc(other[0]).String(), 160)
				}
				c.violation(R, key, instrPos(s.Instr), "merged AD is not a fold over the segments' stored AD bits: "+what)
				return
			}
			for _, a := range accs {
				if bad := c01CheckFold(c, a, segAD); bad != "" {
					c.violation(R, key, instrPos(s.Instr), "merged AD is not a conjunction of the segments' AD bits: "+bad)
					return
				}
			}
			c.ok(R, key, instrPos(s.Instr), "merged AD ← conjunction over wireChaseSegment.ad (shape-independent fold check, see R10)")
		}},
	}
	var sites []Site
	sites = append(sites, c.StoreSites(adF)...)
	sites = append(sites, c.StoreSites(wiAD)...)
	nFree := 0
	for _, s := range sites {
		st := s.Instr.(*ssa.Store)
		e := Desc(st.Val)
		top := fnKey(TopLevel(s.Fn))
		self := fnKey(s.Fn)
		key := fmt.Sprintf("%s|%s|AD store", R, self)
		if ok, _ := c01AllLeaves(e, IsConstBool(false)); ok {
			nFree++ // clearing AD is always allowed; counted once below so a redundant clear can come and go
			continue
		}
		rw := table[top]
		if rw == nil {
			c.violation(R, key, instrPos(s.Instr), "AD writer outside the enumerated set: value "+trunc(e.String(), 200))
			continue
		}
		rw.used = true
		rw.check(s, e, key)
	}
	c.ok(R, R+"|constant-false stores", token.NoPos, fmt.Sprintf("%d stores clear AD (free)", nFree))
	var names []string
	for k := range table {
		names = append(names, k)
	}
	sort.Strings(names)
	for _, k := range names {
		if !table[k].used {
			c.unresolved(R, "AD writer "+k, "enumerated writer no longer exists (table row stale)")
		}
	}
	// whole-header assignments would bypass the field index
	var copies []Site
	for _, s := range c.StoreSites(hdrF) {
		if e := Desc(s.Val); e.K == EAlloc && len(e.Args) == 0 {
			c.ok(R, fmt.Sprintf("%s|%s|MsgHdr literal", R, fnKey(s.Fn)), instrPos(s.Instr), "header built as a literal: its AuthenticatedData field store is indexed above")
			continue
		}
		copies = append(copies, s)
	}
	c.WhoMay(R, "dns.MsgHdr copied whole (AD travels with it)", copies, map[string]string{
		"middleware/cache.NewCacheEntryWithKey": "stores the admitted response's header verbatim: the cached AD is the verdict the resolver wrote",
		"middleware/resolver.acquireAttemptReq": "per-attempt copy of the upstream request (request side)",
	})

	// wire.SetAD
	c.WhoMay(R, "wire.SetAD", c.CallSites(setAD), map[string]string{
		"(*middleware/cache.nxDomainCutEntry).serveWireInto": "wire twin of the validated NXDOMAIN-cut synthesis",
	})
	// callers of wireInfoFor: authData is the stored header's AD (or false)
	for _, s := range c.CallSites(wireInfoFor) {
		key := fmt.Sprintf("%s|%s|wireInfoFor authData", R, fnKey(s.Fn))
		v := callArg(s.Instr, 3)
		if v == nil {
			c.undecided(R, key, instrPos(s.Instr), "wireInfoFor referenced as a value")
			continue
		}
		c.OriginCheck(R, key, s.Instr, "wireInfoFor(authData)", v, nil, IsConstBool(false), CallTo(hdrAD))
	}
	for _, s := range c.StoreSites(segAD) {
		key := fmt.Sprintf("%s|%s|wireChaseSegment.ad", R, fnKey(s.Fn))
		c.OriginCheck(R, key, s.Instr, "wireChaseSegment.ad", s.Val, nil, CallTo(hdrAD))
	}
	c.Floor(R, 22)
}

// c01ConjunctionStore: the stored value is `own && other` — a phi whose only
// non-false edge is a load of the AD field and comes from a block reached only
// across the true edge of the store target's own AD bit.
func c01ConjunctionStore(c *Ctx, rule, key string, s Site, adF *types.Var) {
	st := s.Instr.(*ssa.Store)
	fa, _ := st.Addr.(*ssa.FieldAddr)
	ph, isPhi := st.Val.(*ssa.Phi)
	if fa == nil || !isPhi {
		c.violation(rule, key, instrPos(s.Instr), "AD is neither a validation verdict nor a conjunction with the message's own AD bit: "+trunc(Desc(st.Val).String(), 200))
		return
	}
	base := Desc(fa.X).String()
	own := func(e *Expr) bool {
		e = strip(e)
		return e != nil && e.K == EField && e.Var == adF && e.Op != token.AND && e.X != nil && e.X.String() == base
	}
	nOther := 0
	for i, ed := range ph.Edges {
		e := Desc(ed)
		if IsConstBool(false)(e) {
			continue
		}
		if !FieldIs(adF)(e) || own(e) {
			c.violation(rule, key, instrPos(s.Instr), "conjunction operand is not another message's AD bit: "+trunc(e.String(), 200))
			return
		}
		nOther++
		pred := ph.Block().Preds[i]
		if len(pred.Instrs) == 0 {
			continue
		}
		if ug, tr := c.unguarded(pred.Instrs[0], []Barrier{OnTrue("own AD", own)}, s.Fn); ug {
			c.violation(rule, key, instrPos(s.Instr), "the other message's AD is taken without the message's own AD being true (AD can be raised by the splice); path "+tr)
			return
		}
	}
	if nOther == 0 {
		c.violation(rule, key, instrPos(s.Instr), "conjunction without a second operand")
		return
	}
	c.ok(rule, key, instrPos(s.Instr), "AD ← own AD && spliced message's AD")
}

// ---------------------------------------------------------------------------
// R2 validate before AD

func c01AdStoreNonFalse(adF *types.Var, valOK Pat) func(ssa.Instruction) bool {
	return func(in ssa.Instruction) bool {
		if !isFieldStore(in, adF, nil) {
			return false
		}
		e := Desc(in.(*ssa.Store).Val)
		if ok, _ := c01AllLeaves(e, IsConstBool(false)); ok {
			return false
		}
		return valOK == nil || valOK(e)
	}
}

func c01R2(c *Ctx) {
	const R = "C01-R2"
	c.Doc(R, "answer/authority: AD (and the validated-negative mark) only behind ValidateSigner success, verifyDNSSEC nil-error + true verdict, the wildcard check, and a denial verifier for negative responses; RRSIG-derived signers reach findDS/verifyDNSSEC only behind ValidateSigner; verifyDNSSEC=true only behind DS+RRSIG verification; a verified referral is unsigned only behind signed DS or a delegation-denial verifier")
	adF := c.field(R, "github.com/miekg/dns.MsgHdr.AuthenticatedData")
	ansF := c.field(R, "github.com/miekg/dns.Msg.Answer")
	validateSigner := c.fobj(R, c01Sec+".ValidateSigner")
	verifyDNSSEC := c.fobj(R, c01Res+".(*Resolver).verifyDNSSEC")
	findDS := c.fobj(R, c01Res+".(*Resolver).findDS")
	wildcard := c.fobj(R, c01Sec+".VerifyWildcardAnswerForZoneWithWork")
	vNameErr := c.fobj(R, c01Sec+".VerifyNameErrorForZoneWithWork")
	vNodata := c.fobj(R, c01Sec+".VerifyNODATAForZoneWithWork")
	vNameErrNSEC := c.fobj(R, c01Sec+".VerifyNameErrorNSEC")
	vNodataNSEC := c.fobj(R, c01Sec+".VerifyNODATANSEC")
	vDelegNSEC3 := c.fobj(R, c01Sec+".VerifyDelegationForZoneWithWork")
	vDelegNSEC := c.fobj(R, c01Sec+".VerifyDelegationNSEC")
	mark := c.fobj(R, "middleware.MarkValidatedNegativeProofResponse")
	verifyDS := c.fobj(R, c01Sec+".VerifyDSWithWork")
	verifyRRSIG := c.fobj(R, c01Sec+".VerifyRRSIGWithWork")
	verifyRoot := c.fobj(R, c01Res+".(*Resolver).verifyRootKeys")
	extract := c.fobj(R, "internal/dnsutil.ExtractRRSet")
	answer := c.fn(R, c01Res+".(*Resolver).answer")
	authority := c.fn(R, c01Res+".(*Resolver).authority")
	valDeleg := c.fn(R, c01Res+".(*Resolver).validateDelegation")
	vdFn := c.fn(R, c01Res+".(*Resolver).verifyDNSSEC")
	for _, x := range []any{adF, ansF, validateSigner, verifyDNSSEC, findDS, wildcard, vNameErr, vNodata, vNameErrNSEC, vNodataNSEC, vDelegNSEC3, vDelegNSEC, mark, verifyDS, verifyRRSIG, verifyRoot, extract} {
		if x == nil || x == (*types.Func)(nil) || x == (*types.Var)(nil) {
			return
		}
	}
	if answer == nil || authority == nil || valDeleg == nil || vdFn == nil {
		return
	}
	signerOK := OnFalse("ValidateSigner err", CallTo(validateSigner))
	vdErrNil := OnFalse("verifyDNSSEC err", ResultOf(1, verifyDNSSEC))
	verdict := func(e *Expr) bool {
		return c01SomeLeaf(e, AnyOf(ResultOf(0, verifyDNSSEC), ResultOf(0, wildcard)))
	}

	// answer: the verdict store
	tgt := c01AdStoreNonFalse(adF, verdict)
	c.MustCrossAll(R, answer, "AD verdict store", tgt, signerOK, vdErrNil)
	c.MustCross(R, answer, "AD verdict store", tgt, OnFalse("verifyDNSSEC ok", ResultOf(0, verifyDNSSEC)), OnFalse("wildcard err", ResultOf(1, wildcard)))

	// authority: AD store and the validated-negative mark
	verified := c01VerdictPhi(ResultOf(0, verifyDNSSEC))
	verifiedEdge := OnTrue("verified←verifyDNSSEC", verified)
	adAuth := c01AdStoreNonFalse(adF, nil)
	for _, b := range []Barrier{signerOK, vdErrNil, verifiedEdge} {
		c.c01MustCross(R, authority, "AD store", adAuth, b)
		c.c01MustCross(R, authority, "MarkValidatedNegativeProofResponse", isCallTo(mark), b)
	}
	denial := []Barrier{
		OnFalse("VerifyNameErrorForZoneWithWork err", ResultOf(1, vNameErr)),
		OnFalse("VerifyNODATAForZoneWithWork err", ResultOf(1, vNodata)),
		OnFalse("VerifyNameErrorNSEC err", CallTo(vNameErrNSEC)),
		OnFalse("VerifyNODATANSEC err", CallTo(vNodataNSEC)),
	}
	// the mark needs proofKind != Unknown, and proofKind leaves Unknown only in arms behind a denial verifier's success
	proofKind := c01GuardedPhi(c, authority, denial...)
	c.c01MustCross(R, authority, "MarkValidatedNegativeProofResponse", isCallTo(mark), OnCmp("proofKind!=Unknown (set only behind a denial verifier)", proofKind, token.NEQ, IsConstInt(0), true))
	// negative response ⇒ denial verifier before AD
	isNeg := func(e *Expr) bool {
		return c01SomeLeaf(e, func(l *Expr) bool {
			l = strip(l)
			if l == nil || l.K != EBin || l.Op != token.EQL || !IsConstInt(0)(l.Y) {
				return false
			}
			x := strip(l.X)
			return x != nil && x.K == ECall && x.Method == "builtin.len" && len(x.Args) == 1 && FieldIs(ansF)(x.Args[0])
		})
	}
	c.AfterEdge(R, authority, "AD on a negative response without a denial proof", OnTrue("isNegative", isNeg), adAuth, denial...)

	// signer must be an ancestor before any DS lookup / verification
	for _, fn := range []*ssa.Function{answer, authority, valDeleg} {
		c.MustCross(R, fn, "findDS for an RRSIG signer", func(in ssa.Instruction) bool {
			if !isPlainCallTo(findDS)(in) {
				return false
			}
			// the CD=1 chain walk of validateDelegation passes cd=true and no signer
			return !IsConstBool(true)(Desc(callArg(in, 5)))
		}, signerOK)
		c.MustCross(R, fn, "verifyDNSSEC", isPlainCallTo(verifyDNSSEC), signerOK)
	}

	// verifyDNSSEC: true only after DS→KSK and RRSIG verification (or the root check)
	retTrue := isReturnWith(0, func(e *Expr) bool { return !IsConstBool(false)(e) })
	// the DS→DNSKEY link: any exported dnssec function that is handed the DS set and reports an error
	// (VerifyDSWithWork; a variant that also returns the matched keys counts the same)
	dsLinkErr := func(e *Expr) bool {
		e = strip(e)
		if e == nil {
			return false
		}
		if e.K == EPhi || e.K == EAlloc {
			if len(e.Args) == 0 {
				return false
			}
			for _, a := range e.Args {
				sa := strip(a)
				if sa == nil || sa.K != EExtract || sa.X == nil || sa.X.K != ECall {
					return false
				}
				if !c01IsDSLink(sa.X, sa.Idx) {
					return false
				}
			}
			return true
		}
		return e.K == EExtract && e.X != nil && e.X.K == ECall && c01IsDSLink(e.X, e.Idx)
	}
	c.MustCross(R, vdFn, "VerifyRRSIGWithWork", isPlainCallTo(verifyRRSIG), OnFalse("VerifyDSWithWork err", dsLinkErr))
	c.MustCross(R, vdFn, "return ok!=false", func(in ssa.Instruction) bool {
		if !retTrue(in) {
			return false
		}
		// the bare `return` on an error path carries the named result's current value
		r := in.(*ssa.Return)
		return len(r.Results) == 2 && IsNilConst(Desc(r.Results[1]))
	}, OnTrue("VerifyRRSIGWithWork ok", ResultOf(0, verifyRRSIG)), OnTrue("verifyRootKeys ok", ResultOf(0, verifyRoot)))

	// validateDelegation: verified referral ⇒ DS set or delegation denial proof
	childDS := func(e *Expr) bool {
		e = strip(e)
		if e == nil || e.K != ECall || e.Method != "builtin.len" || len(e.Args) != 1 {
			return false
		}
		return c01SomeLeaf(e.Args[0], CallTo(extract))
	}
	// `verified` is the flag whose every non-false incoming value is set behind verifyDNSSEC()=true
	verifiedVD := c01GuardedPhi(c, valDeleg, OnTrue("verifyDNSSEC ok", ResultOf(0, verifyDNSSEC)))
	starts := c01EdgeStarts(valDeleg, OnTrue("verified", verifiedVD))
	if len(starts) == 0 {
		c.unresolved(R, "validateDelegation|verified edge", "no branch on a flag that is set only behind verifyDNSSEC()=true")
	} else {
		c.c01After(R, R+"|validateDelegation|unsigned only on proof", starts, valDeleg.Pos(), "verified referral accepted", func(in ssa.Instruction) bool {
			r, ok := in.(*ssa.Return)
			return ok && len(r.Results) == 2 && IsNilConst(Desc(r.Results[1]))
		},
			OnCmp("len(childDS)>0", childDS, token.GTR, IsConstInt(0), true),
			OnFalse("VerifyDelegationForZoneWithWork err", CallTo(vDelegNSEC3)),
			OnFalse("VerifyDelegationNSEC err", CallTo(vDelegNSEC)))
	}
	c.Floor(R, 22)
}

// ---------------------------------------------------------------------------
// R3 fail closed without anchors

func c01R3(c *Ctx) {
	const R = "C01-R3"
	c.Doc(R, "answer/authority/validateDelegation reach findRRSIGSigners only across hasTrustAnchors()=true or r.dnssec=false; the hasTrustAnchors()=false edge returns only ErrTrustAnchorsUnavailable; every delegations.SetUntil is behind the same guard; dsRRFromRootKeys returns nil error only for a non-empty set; hasTrustAnchors is len(rootKeys)>0")
	hasTA := c.fobj(R, c01Res+".(*Resolver).hasTrustAnchors")
	findSigners := c.fobj(R, c01Res+".(*Resolver).findRRSIGSigners")
	dnssecF := c.field(R, c01Res+".Resolver.dnssec")
	rootKeys := c.field(R, c01Res+".Resolver.rootKeys")
	setUntil := c.fobj(R, "internal/authority.(*Cache).SetUntil")
	sentinel := c.P.Object(c01Sec + ".ErrTrustAnchorsUnavailable")
	if sentinel == nil {
		c.unresolved(R, c01Sec+".ErrTrustAnchorsUnavailable", "sentinel not found")
	}
	if hasTA == nil || findSigners == nil || dnssecF == nil || rootKeys == nil || setUntil == nil || sentinel == nil {
		return
	}
	guardOn := OnTrue("hasTrustAnchors()", CallTo(hasTA))
	guardOff := OnFalse("r.dnssec", FieldIs(dnssecF))
	for _, name := range []string{"answer", "authority", "validateDelegation"} {
		fn := c.fn(R, c01Res+".(*Resolver)."+name)
		if fn == nil {
			continue
		}
		c.MustCross(R, fn, "findRRSIGSigners", isPlainCallTo(findSigners), guardOn, guardOff)
		starts := c01EdgeStarts(fn, OnFalse("hasTrustAnchors()", CallTo(hasTA)))
		key := fmt.Sprintf("%s|%s|no-anchor edge returns the sentinel", R, fnKey(fn))
		if len(starts) == 0 {
			c.unresolved(R, fnKey(fn)+"|hasTrustAnchors edge", "no branch on hasTrustAnchors() found")
			continue
		}
		c.c01After(R, key, starts, fn.Pos(), "hasTrustAnchors()=false", func(in ssa.Instruction) bool {
			r, ok := in.(*ssa.Return)
			if !ok || len(r.Results) == 0 {
				return false
			}
			return !GlobalIs(sentinel)(Desc(r.Results[len(r.Results)-1]))
		})
	}
	// delegation cache writes
	n := 0
	seen := map[*ssa.Function]bool{}
	for _, s := range c.CallSites(setUntil) {
		top := TopLevel(s.Fn)
		if seen[top] {
			continue
		}
		seen[top] = true
		n += c.MustCross(R, top, "delegations.SetUntil", isCallTo(setUntil), guardOn, guardOff)
	}
	if n < 2 {
		c.unresolved(R, "SetUntil sites", fmt.Sprintf("expected 2 delegation-cache writes, found %d", n))
	}
	// dsRRFromRootKeys
	if fn := c.fn(R, c01Res+".(*Resolver).dsRRFromRootKeys"); fn != nil {
		lenPat := func(e *Expr) bool {
			e = strip(e)
			return e != nil && e.K == ECall && e.Method == "builtin.len"
		}
		c.MustCross(R, fn, "return dsset, nil", isReturnWith(1, IsNilConst), OnCmp("len(dsset)==0 fails", lenPat, token.EQL, IsConstInt(0), false))
		starts := c01EdgeStarts(fn, OnCmp("len(dsset)==0", lenPat, token.EQL, IsConstInt(0), true))
		if len(starts) == 0 {
			c.unresolved(R, "dsRRFromRootKeys|empty-set edge", "no len(...)==0 branch")
		} else {
			c.c01After(R, R+"|dsRRFromRootKeys|empty set returns the sentinel", starts, fn.Pos(), "empty DS set", func(in ssa.Instruction) bool {
				r, ok := in.(*ssa.Return)
				return ok && len(r.Results) == 2 && !GlobalIs(sentinel)(Desc(r.Results[1]))
			})
		}
	}
	// hasTrustAnchors
	if fn := c.fn(R, c01Res+".(*Resolver).hasTrustAnchors"); fn != nil {
		key := R + "|hasTrustAnchors|len(rootKeys)>0"
		n := 0
		for _, in := range instrsWhere(fn, isReturn) {
			n++
			e := Desc(in.(*ssa.Return).Results[0])
			m, pol := CmpMatch(e, func(x *Expr) bool {
				x = strip(x)
				return x != nil && x.K == ECall && x.Method == "builtin.len" && len(x.Args) == 1 && FieldIs(rootKeys)(x.Args[0])
			}, token.GTR, IsConstInt(0))
			if m && pol {
				c.ok(R, key, instrPos(in), "hasTrustAnchors ≡ len(r.rootKeys) > 0")
			} else {
				c.violation(R, key, instrPos(in), "hasTrustAnchors does not report len(r.rootKeys) > 0: "+trunc(e.String(), 200))
			}
		}
		if n == 0 {
			c.unresolved(R, "hasTrustAnchors", "no return")
		}
	}
	c.Floor(R, 12)
}

// ---------------------------------------------------------------------------
// R4 no validation error is dropped

func c01R4(c *Ctx) {
	const R = "C01-R4"
	c.Doc(R, "at every call of the validation family (dnssec.Verify*/ValidateSigner/DNSKEYToDSWithWork, Resolver.verifyDNSSEC/findDS/lookupDS/authenticatedDelegationDS/dsRRFromRootKeys/verifyRootKeys) the error result is bound and tested or returned; from its non-nil edge, from isZoneSecure()=true and from provenInsecureDelegation()=false no success return (nil error / non-fail-closed bool) is reachable except across: a fresh candidate's ValidateSigner call, provenInsecureDelegation()=true, or VerifyDSWithWork's unsupportedOnly=true")
	validateSigner := c.fobj(R, c01Sec+".ValidateSigner")
	verifyDS := c.fobj(R, c01Sec+".VerifyDSWithWork")
	isZoneSecure := c.fobj(R, c01Res+".(*Resolver).isZoneSecure")
	proven := c.fobj(R, c01Res+".(*Resolver).provenInsecureDelegation")
	verifyRRSIG := c.fobj(R, c01Sec+".VerifyRRSIGWithWork")
	if validateSigner == nil || verifyDS == nil || isZoneSecure == nil || proven == nil || verifyRRSIG == nil {
		return
	}
	var family []*types.Func
	if pk := c.P.ByPath[c.P.expand(c01Sec)]; pk != nil && pk.Types != nil {
		sc := pk.Types.Scope()
		for _, n := range sc.Names() {
			fo, ok := sc.Lookup(n).(*types.Func)
			if !ok || !fo.Exported() {
				continue
			}
			if !(strings.HasPrefix(n, "Verify") || strings.HasPrefix(n, "Match") || n == "ValidateSigner" || n == "DNSKEYToDSWithWork") {
				continue
			}
			res := fo.Type().(*types.Signature).Results()
			if res.Len() == 0 || !c01IsErrorType(res.At(res.Len()-1).Type()) {
				continue
			}
			family = append(family, fo)
		}
	} else {
		c.unresolved(R, c01Sec, "package not loaded")
		return
	}
	for _, m := range []string{"verifyDNSSEC", "findDS", "lookupDS", "authenticatedDelegationDS", "dsRRFromRootKeys", "verifyRootKeys"} {
		if fo := c.fobj(R, c01Res+".(*Resolver)."+m); fo != nil {
			family = append(family, fo)
		}
	}
	// allowed ways out of a failure edge, each scoped to the function (and callee) it belongs to
	freshCandidate := CallBarrier("ValidateSigner (fresh candidate)", validateSigner)
	provenEdge := OnTrue("provenInsecureDelegation()", CallTo(proven))
	retryLoops := map[string]bool{ // per-signer retry loops: a later candidate is validated from scratch
		"(*middleware/resolver.Resolver).answer":             true,
		"(*middleware/resolver.Resolver).authority":          true,
		"(*middleware/resolver.Resolver).validateDelegation": true,
	}
	extraFor := func(fn string, callee *types.Func) []Barrier {
		var out []Barrier
		if retryLoops[fn] {
			out = append(out, freshCandidate)
		}
		if callee == isZoneSecure && retryLoops[fn] {
			out = append(out, provenEdge) // missing signatures accepted only under a proven insecure delegation
		}
		if fn == "(*middleware/resolver.Resolver).verifyDNSSEC" && (callee == verifyDS || c01IsDSLinkFunc(callee)) {
			// the bool verdict of the DS link (of whichever variant was called; merged by a phi when there are two)
			var unsup func(e *Expr, d int) bool
			unsup = func(e *Expr, d int) bool {
				e = strip(e)
				if e == nil || d > 2 {
					return false
				}
				if (e.K == EPhi || e.K == EAlloc) && len(e.Args) > 0 {
					for _, a := range e.Args {
						if !unsup(a, d+1) {
							return false
						}
					}
					return true
				}
				if e.K == EConst {
					return d > 0 // the zero value merged in on the other branch
				}
				if e.K != EExtract || e.X == nil || e.X.K != ECall || e.X.Fn == nil || !c01IsDSLinkFunc(e.X.Fn) {
					return false
				}
				sig := e.X.Fn.Type().(*types.Signature)
				b, ok := sig.Results().At(e.Idx).Type().Underlying().(*types.Basic)
				return ok && b.Kind() == types.Bool
			}
			out = append(out, OnTrue("unsupportedOnly (RFC 6840 §5.2: ok=false can only clear AD)", func(e *Expr) bool { return unsup(e, 0) }))
		}
		if fn == "middleware/resolver.verifyFetchedKeysWithWork" && callee == verifyRRSIG {
			out = append(out, OnTrue("a later pass's own verified=true verdict (RFC 5011 two-pass check, C09)", ResultOf(0, verifyRRSIG)))
		}
		return out
	}
	// fail-closed constants of the boolean verdict helpers
	failConst := map[string]bool{
		"(*middleware/resolver.Resolver).isZoneSecure":             true,  // lookup error ⇒ assume signed
		"(*middleware/resolver.Resolver).provenInsecureDelegation": false, // any error ⇒ not proven
	}
	successReturn := func(fn *ssa.Function) (func(ssa.Instruction) bool, string) {
		res := fn.Signature.Results()
		if res.Len() > 0 && c01IsErrorType(res.At(res.Len()-1).Type()) {
			return func(in ssa.Instruction) bool {
				r, ok := in.(*ssa.Return)
				return ok && IsNilConst(Desc(r.Results[len(r.Results)-1]))
			}, "return …, nil"
		}
		if fc, ok := failConst[fnKey(fn)]; ok {
			return func(in ssa.Instruction) bool {
				r, ok := in.(*ssa.Return)
				return ok && !IsConstBool(fc)(Desc(r.Results[0]))
			}, fmt.Sprintf("return other than %v", fc)
		}
		return nil, ""
	}
	for _, f := range family {
		for _, s := range c.CallSites(f) {
			cl, ok := s.Instr.(*ssa.Call)
			key := fmt.Sprintf("%s|%s|%s", R, fnKey(s.Fn), f.Name())
			if !ok || s.Kind != "call" {
				c.undecided(R, key, instrPos(s.Instr), "validation function used as a value / go / defer: its error cannot be followed")
				continue
			}
			errVal, has := c01ErrResult(cl)
			if !has {
				continue
			}
			if errVal == nil {
				c.violation(R, key, instrPos(s.Instr), f.Name()+": error result is discarded")
				continue
			}
			starts := c01EdgeStarts(s.Fn, OnTrue("err", c01ValueIs(errVal)))
			if len(starts) == 0 {
				// propagated unchanged?
				prop := errVal.Referrers() != nil && len(*errVal.Referrers()) > 0
				if prop {
					for _, r := range *errVal.Referrers() {
						switch r.(type) {
						case *ssa.Return, *ssa.DebugRef:
						default:
							prop = false
						}
					}
				}
				if prop {
					c.ok(R, key, instrPos(s.Instr), f.Name()+": error returned to the caller unchanged")
				} else {
					c.violation(R, key, instrPos(s.Instr), f.Name()+": error is neither tested against nil nor returned")
				}
				continue
			}
			tgt, what := successReturn(s.Fn)
			if tgt == nil {
				c.undecided(R, key, instrPos(s.Instr), "enclosing function has neither an error result nor a declared fail-closed constant")
				continue
			}
			c.c01After(R, key, starts, instrPos(s.Instr), f.Name()+" failed → "+what, tgt, extraFor(fnKey(s.Fn), f)...)
		}
	}
	// boolean verdicts used by the validators
	for _, v := range []struct {
		f    *types.Func
		edge func(ssa.Value) Barrier
		what string
	}{
		{isZoneSecure, func(v ssa.Value) Barrier { return OnTrue("isZoneSecure()", c01ValueIs(v)) }, "zone is signed but no usable signature/DS"},
		{proven, func(v ssa.Value) Barrier { return OnFalse("provenInsecureDelegation()", c01ValueIs(v)) }, "insecure delegation not proven"},
	} {
		for _, s := range c.CallSites(v.f) {
			cl, ok := s.Instr.(*ssa.Call)
			key := fmt.Sprintf("%s|%s|%s verdict", R, fnKey(s.Fn), v.f.Name())
			if !ok {
				c.undecided(R, key, instrPos(s.Instr), "verdict function used as a value")
				continue
			}
			starts := c01EdgeStarts(s.Fn, v.edge(cl))
			if len(starts) == 0 {
				c.violation(R, key, instrPos(s.Instr), v.f.Name()+": verdict is not branched on")
				continue
			}
			tgt, what := successReturn(s.Fn)
			if tgt == nil {
				c.undecided(R, key, instrPos(s.Instr), "enclosing function has no error result")
				continue
			}
			bars := extraFor(fnKey(s.Fn), v.f)
			c.c01After(R, key, starts, instrPos(s.Instr), v.what+" → "+what, tgt, bars...)
		}
	}
	c.Floor(R, 53)
}

// ---------------------------------------------------------------------------
// R5 errors become SERVFAIL

func c01R5(c *Ctx) {
	const R = "C01-R5"
	c.Doc(R, "DNSHandler.handle: after Resolve's non-nil error edge every return is SetRcodeWithEDE(req, SERVFAIL, do, ErrorToEDE(err)…); Resolve's message is returned only across the nil-error edge")
	h := c.fn(R, c01Res+".(*DNSHandler).handle")
	resolve := c.fobj(R, c01Res+".(*Resolver).Resolve")
	setEDE := c.fobj(R, "internal/dnsutil.SetRcodeWithEDE")
	toEDE := c.fobj(R, "internal/dnsutil.ErrorToEDE")
	if h == nil || resolve == nil || setEDE == nil || toEDE == nil {
		return
	}
	servfail := func(e *Expr) bool {
		e = strip(e)
		if e == nil || e.K != ECall || !CallTo(setEDE)(e) || len(e.Args) != 5 {
			return false
		}
		if !IsConstInt(2)(e.Args[1]) {
			return false
		}
		for i, idx := range []int{3, 4} {
			a := strip(e.Args[idx])
			if !ResultOf(i, toEDE)(a) || a.K != EExtract || len(a.X.Args) != 1 || !ResultOf(1, resolve)(a.X.Args[0]) {
				return false
			}
		}
		return true
	}
	starts := c01EdgeStarts(h, OnTrue("Resolve err", ResultOf(1, resolve)))
	if len(starts) == 0 {
		c.unresolved(R, "handle|Resolve error edge", "no branch on Resolve's error")
	} else {
		c.c01After(R, R+"|handle|error edge returns SERVFAIL+EDE", starts, h.Pos(), "Resolve failed", func(in ssa.Instruction) bool {
			r, ok := in.(*ssa.Return)
			return ok && !servfail(Desc(r.Results[0]))
		})
	}
	c.MustCross(R, h, "return of the resolver's message", isReturnWith(0, func(e *Expr) bool { return c01SomeLeaf(e, ResultOf(0, resolve)) }),
		OnFalse("Resolve err", ResultOf(1, resolve)))
	c.Floor(R, 3)
}

// ---------------------------------------------------------------------------
// R6 AD discipline toward the client

func c01R6(c *Ctx) {
	const R = "C01-R6"
	c.Doc(R, "noad ≡ CD ∨ (¬AD ∧ ¬DO) at both definitions; edns WriteMsg/WriteWire reach the delegate only across AD cleared or noad=false (WriteWire: or WireInfo.AuthenticatedData=false); truncation clears AD; ToMsg/serveWireInto/serveWireIntoRequest/composeWireChase clear AD toward CD=1; the locally synthesised AD=1 replies are built only on the CD=0 edge")
	adF := c.field(R, "github.com/miekg/dns.MsgHdr.AuthenticatedData")
	cdF := c.field(R, "github.com/miekg/dns.MsgHdr.CheckingDisabled")
	tcF := c.field(R, "github.com/miekg/dns.MsgHdr.Truncated")
	noadF := c.field(R, "middleware/edns.ResponseWriter.noad")
	wiAD := c.field(R, "middleware.WireInfo.AuthenticatedData")
	segAD := c.field(R, "middleware/cache.wireChaseSegment.ad")
	setEdns0 := c.fobj(R, "internal/dnsutil.SetEdns0")
	reqCD := c.fobj(R, "middleware.(*Request).CD")
	reqAD := c.fobj(R, "middleware.(*Request).AD")
	reqDO := c.fobj(R, "middleware.(*Request).DO")
	clearAD := c.fobj(R, "internal/wire.ClearAD")
	hdrAD := c.fobj(R, "internal/wire.Header.AD")
	if adF == nil || cdF == nil || tcF == nil || noadF == nil || wiAD == nil || segAD == nil || setEdns0 == nil || reqCD == nil || reqAD == nil || reqDO == nil || clearAD == nil || hdrAD == nil {
		return
	}
	// (a) truth tables
	pk := c.P.ByPath[c.P.expand("middleware/edns")]
	if pk == nil {
		c.unresolved(R, "middleware/edns", "package not loaded")
		return
	}
	assigns := c01FieldAssigns(pk, noadF)
	if len(assigns) != 2 || len(c.StoreSites(noadF)) != 2 {
		c.unresolved(R, "noad definitions", fmt.Sprintf("expected exactly 2 assignments to ResponseWriter.noad, found %d in syntax / %d stores", len(assigns), len(c.StoreSites(noadF))))
	}
	for _, a := range assigns {
		fd := a.Fn
		atom := func(e ast.Expr, info *types.Info) string {
			switch x := e.(type) {
			case *ast.SelectorExpr:
				if s := info.Selections[x]; s != nil {
					switch s.Obj() {
					case types.Object(cdF):
						return "CD"
					case types.Object(adF):
						return "AD"
					}
				}
			case *ast.Ident:
				if c01LocalFromCallResult(fd, info, x, setEdns0, 4) {
					return "DO"
				}
			case *ast.CallExpr:
				if sel, ok := ast.Unparen(x.Fun).(*ast.SelectorExpr); ok && len(x.Args) == 0 {
					switch info.Uses[sel.Sel] {
					case types.Object(reqCD):
						return "CD"
					case types.Object(reqAD):
						return "AD"
					case types.Object(reqDO):
						return "DO"
					}
				}
			}
			return ""
		}
		recv := ""
		if fd.Recv != nil && len(fd.Recv.List) > 0 {
			recv = types.ExprString(fd.Recv.List[0].Type) + "."
		}
		c.TruthTableCheck(R, R+"|edns."+recv+fd.Name.Name+"|noad", a.RHS, pk, atom, []string{"CD", "AD", "DO"},
			func(v map[string]bool) bool { return v["CD"] || (!v["AD"] && !v["DO"]) }, "CD ∨ (¬AD ∧ ¬DO)")
	}

	// (b) the edns writer
	noadOff := OnFalse("w.noad", FieldIs(noadF))
	if fn := c.fn(R, "middleware/edns.(*ResponseWriter).WriteMsg"); fn != nil {
		deleg := isMethodCallNamed("WriteMsg", nil)
		c.MustCross(R, fn, "delegate WriteMsg", deleg, StoreBarrier("AD=false", adF, IsConstBool(false)), noadOff)
		c.MustCrossFrom(R, fn, "truncated reply keeps AD", func(in ssa.Instruction) bool { return isFieldStore(in, tcF, IsConstBool(true)) }, deleg,
			StoreBarrier("AD=false", adF, IsConstBool(false)))
	}
	if fn := c.fn(R, "middleware/edns.(*ResponseWriter).WriteWire"); fn != nil {
		n := c.MustCross(R, fn, "delegate WriteWire", isMethodCallNamed("WriteWire", nil), CallBarrier("wire.ClearAD", clearAD), noadOff, OnFalse("info.AuthenticatedData", FieldIs(wiAD)))
		if n < 2 {
			c.unresolved(R, "edns.WriteWire delegates", fmt.Sprintf("expected 2 delegate calls, found %d", n))
		}
	}

	// (c) cache serving functions
	cdOff := OnFalse("request CD", AnyOf(FieldIs(cdF), CallTo(reqCD)))
	if fn := c.fn(R, "middleware/cache.(*CacheEntry).ToMsg"); fn != nil {
		c.MustCross(R, fn, "success return", isReturnWith(0, NotNilConst), StoreBarrier("AD=false", adF, IsConstBool(false)), cdOff)
	}
	okRet := isReturnWith(2, IsConstBool(true))
	for _, name := range []string{"middleware/cache.(*CacheEntry).serveWireInto", "middleware/cache.(*CacheEntry).serveWireIntoRequest"} {
		if fn := c.fn(R, name); fn != nil {
			c.MustCross(R, fn, "success return", okRet, CallBarrier("wire.ClearAD", clearAD), cdOff, OnFalse("stored AD", CallTo(hdrAD)))
		}
	}
	if fn := c.fn(R, "middleware/cache.composeWireChase"); fn != nil {
		// any value built only from the segment loop's running verdict (that the verdict is a proper fold is R1/R10)
		merged := func(e *Expr) bool {
			e = strip(e)
			if e == nil || e.V == nil {
				return false
			}
			accs, other := c01FoldLeaves(e.V)
			return len(accs) > 0 && len(other) == 0
		}
		c.MustCross(R, fn, "success return", okRet, CallBarrier("wire.ClearAD", clearAD), cdOff, OnFalse("merged AD", merged))
	}

	// (d) synthesised AD=1 replies only for CD=0
	if fn := c.fn(R, "middleware/cache.(*nxDomainCutEntry).response"); fn != nil {
		c.MustCross(R, fn, "AD=true", func(in ssa.Instruction) bool { return isFieldStore(in, adF, IsConstBool(true)) }, cdOff)
	}
	for _, callee := range []string{"middleware/cache.(*Cache).serveCutHitFromWire", "middleware/cache.denialProofResponse"} {
		fo := c.fobj(R, callee)
		if fo == nil {
			continue
		}
		sites := c.CallSites(fo)
		if len(sites) == 0 {
			c.unresolved(R, callee, "no caller found")
		}
		seen := map[*ssa.Function]bool{}
		for _, s := range sites {
			top := TopLevel(s.Fn)
			if seen[top] {
				continue
			}
			seen[top] = true
			c.MustCross(R, top, "call "+fo.Name(), isCallTo(fo), cdOff)
		}
	}
	c.Floor(R, 13)
}

// ---------------------------------------------------------------------------
// R7 crypto only behind the preflight

func c01R7(c *Ctx) {
	const R = "C01-R7"
	c.Doc(R, "cryptoVerify ← only runSignatureVerification ← only verifyOneSigWithWork; verifySignature ← only cryptoVerify; the verification call lies behind ValidityPeriod, IsSupportedDNSKEYAlgorithm and signatureMatchesRRset and its key comes from the usableSignatureCandidate-filtered slice; in verifyRRSIGWithWork no RRset is passed without a verifying signature, out-of-zone answer records are fatal before any signature work and never enter the validated sets; no-work entry points have no production caller")
	p := c01Sec + "."
	cryptoVerify := c.fobj(R, p+"cryptoVerify")
	runSig := c.fobj(R, p+"runSignatureVerification")
	oneSig := c.fobj(R, p+"verifyOneSigWithWork")
	verifySig := c.fobj(R, p+"verifySignature")
	usable := c.fobj(R, p+"usableSignatureCandidate")
	matches := c.fobj(R, p+"signatureMatchesRRset")
	supported := c.fobj(R, p+"IsSupportedDNSKEYAlgorithm")
	uniqKeys := c.fobj(R, p+"uniqueSortedDNSKEYs")
	uniqSigs := c.fobj(R, p+"uniqueSortedRRSIGs")
	validity := c.fobj(R, "github.com/miekg/dns.(*RRSIG).ValidityPeriod")
	nameInZone := c.fobj(R, "internal/dnsutil.NameInZone")
	missingSigned := c.P.Object(p + "ErrMissingSigned")
	if cryptoVerify == nil || runSig == nil || oneSig == nil || verifySig == nil || usable == nil || matches == nil || supported == nil || uniqKeys == nil || uniqSigs == nil || validity == nil || nameInZone == nil || missingSigned == nil {
		if missingSigned == nil {
			c.unresolved(R, p+"ErrMissingSigned", "sentinel not found")
		}
		return
	}
	c.WhoMay(R, "cryptoVerify", c.CallSites(cryptoVerify), map[string]string{"middleware/resolver/dnssec.runSignatureVerification": "the work-accounted wrapper"})
	c.WhoMay(R, "runSignatureVerification", c.CallSites(runSig), map[string]string{"middleware/resolver/dnssec.verifyOneSigWithWork": "the only place that ran the preflight"})
	c.WhoMay(R, "verifySignature", c.CallSites(verifySig), map[string]string{"middleware/resolver/dnssec.cryptoVerify": "dispatcher"})

	if fn := c.fn(R, p+"verifyOneSigWithWork"); fn != nil {
		c.MustCrossAll(R, fn, "runSignatureVerification", isPlainCallTo(runSig),
			OnTrue("sig.ValidityPeriod", CallTo(validity)),
			OnTrue("IsSupportedDNSKEYAlgorithm", CallTo(supported)),
			OnTrue("signatureMatchesRRset", CallTo(matches)))
		// key argument: element of the filtered slice
		isAppend := func(e *Expr) bool { return e != nil && e.K == ECall && e.Method == "builtin.append" }
		for _, in := range instrsWhere(fn, isPlainCallTo(runSig)) {
			key := R + "|verifyOneSigWithWork|key argument"
			e := strip(Desc(callArg(in, 1)))
			if e == nil || e.K != EIndex {
				c.violation(R, key, instrPos(in), "key passed to the verification is not an element of a slice: "+trunc(e.String(), 200))
				continue
			}
			leaves := Origins(e.X, func(x *Expr) []int {
				call := x
				if x.K == EExtract {
					call = x.X
				}
				if CallTo(uniqKeys)(call) || isAppend(call) {
					return []int{0}
				}
				return nil
			})
			bad := ""
			for _, l := range leaves {
				if l.K != EMake {
					bad = l.String()
				}
			}
			if bad != "" || len(leaves) == 0 {
				c.violation(R, key, instrPos(in), "keys tried are not drawn from the freshly built, filtered slice: "+trunc(bad, 200))
			} else {
				c.ok(R, key, instrPos(in), "key ∈ uniqueSortedDNSKEYs(filtered append chain)")
			}
		}
		c.MustCross(R, fn, "append to the eligible keys", func(in ssa.Instruction) bool {
			cl, ok := in.(*ssa.Call)
			if !ok {
				return false
			}
			b, ok := cl.Call.Value.(*ssa.Builtin)
			if !ok || b.Name() != "append" {
				return false
			}
			sl, ok := cl.Type().Underlying().(*types.Slice)
			if !ok {
				return false
			}
			pt, ok := sl.Elem().(*types.Pointer)
			if !ok {
				return false
			}
			n, ok := pt.Elem().(*types.Named)
			return ok && n.Obj().Name() == "DNSKEY"
		}, OnTrue("usableSignatureCandidate", CallTo(usable)))
	}

	if fn := c.fn(R, p+"verifyRRSIGWithWork"); fn != nil {
		// every RRset needs a verifying signature before the next RRset / the true verdict
		var starts []c01Start
		for _, in := range instrsWhere(fn, isPlainCallTo(uniqSigs)) {
			if in.Parent() == fn {
				starts = append(starts, c01Start{pointAfter(in), -1})
			}
		}
		if len(starts) == 0 {
			c.unresolved(R, "verifyRRSIGWithWork|per-RRset signature loop", "uniqueSortedRRSIGs call not found")
		} else {
			c.c01After(R, R+"|verifyRRSIGWithWork|RRset accepted without a verifying signature", starts, fn.Pos(), "RRset under validation",
				func(in ssa.Instruction) bool {
					if r, ok := in.(*ssa.Return); ok {
						return !IsConstBool(false)(Desc(r.Results[0]))
					}
					return isPlainCallTo(uniqSigs)(in)
				}, OnFalse("verifyOneSigWithWork err", CallTo(oneSig)))
		}
		// out-of-zone answer record ⇒ error before any signature work
		collectErr := func(e *Expr) bool {
			ok, _ := c01AllLeaves(e, GlobalIs(missingSigned))
			return ok
		}
		c.MustCross(R, fn, "verifyOneSigWithWork", isPlainCallTo(oneSig), OnFalse("collectErr", collectErr))
		// the collecting closure
		var collect *ssa.Function
		for _, a := range fn.AnonFuncs {
			for _, fv := range a.FreeVars {
				if pt, ok := fv.Type().(*types.Pointer); ok && c01IsErrorType(pt.Elem()) {
					collect = a
				}
			}
		}
		if collect == nil {
			c.unresolved(R, "verifyRRSIGWithWork|collect closure", "no closure capturing the collect error")
		} else {
			inZone := OnTrue("NameInZone(name, signerZone)", CallTo(nameInZone))
			c.MustCross(R, collect, "record admitted to the validated RRsets", func(in ssa.Instruction) bool {
				_, ok := in.(*ssa.MapUpdate)
				return ok
			}, inZone)
			errStore := Barrier{Name: "collectErr = ErrMissingSigned", Instr: func(in ssa.Instruction) bool {
				st, ok := in.(*ssa.Store)
				if !ok {
					return false
				}
				_, isFV := st.Addr.(*ssa.FreeVar)
				return isFV && GlobalIs(missingSigned)(Desc(st.Val))
			}}
			fromAuth := OnTrue("fromAuthority", func(e *Expr) bool { return e.K == EParam && e.Name == "fromAuthority" })
			already := OnTrue("collectErr already set", collectErr)
			c.AfterEdge(R, collect, "out-of-zone answer record not fatal", OnFalse("NameInZone(name, signerZone)", CallTo(nameInZone)), isReturn, errStore, fromAuth, already)
		}
	}

	// no-work entry points stay unreachable from production code
	for _, n := range []string{"VerifyDS", "VerifyRRSIG", "VerifyNameError", "VerifyNODATA", "VerifyDelegation", "VerifyWildcardAnswer"} {
		fo := c.fobj(R, p+n)
		if fo == nil {
			continue
		}
		key := R + "|no-work entry point|" + n
		sites := c.CallSites(fo)
		if len(sites) == 0 {
			c.ok(R, key, token.NoPos, n+" has no non-test caller")
			continue
		}
		for _, s := range sites {
			c.violation(R, key, instrPos(s.Instr), n+" (no work accounting, no zone binding) is called from "+fnKey(s.Fn))
		}
	}
	c.Floor(R, 18)
}

// ---------------------------------------------------------------------------
// R8 no upstream message reaches the client around the validators

func c01R8(c *Ctx) {
	const R = "C01-R8"
	c.Doc(R, "Resolver.resolve: the upstream AD bit is reset (setTags) before any validator runs; answer/authority/processAuthoritySection are called only from the resolution loop; a success return of resolve that is not a validator's/recursive call's own result — an upstream message handed back as is, or a locally fabricated empty reply — is reachable only across CD=1, validation off, a proven-unsigned verdict (isZoneSecure/hasSupportedDS false), or, for an upstream message, rcode != NXDOMAIN")
	adF := c.field(R, "github.com/miekg/dns.MsgHdr.AuthenticatedData")
	cdF := c.field(R, "github.com/miekg/dns.MsgHdr.CheckingDisabled")
	rcF := c.field(R, "github.com/miekg/dns.MsgHdr.Rcode")
	dnssecF := c.field(R, c01Res+".Resolver.dnssec")
	resolve := c.fn(R, c01Res+".(*Resolver).resolve")
	setTagsFn := c.fn(R, c01Res+".(*Resolver).setTags")
	setTags := c.fobj(R, c01Res+".(*Resolver).setTags")
	answer := c.fobj(R, c01Res+".(*Resolver).answer")
	authority := c.fobj(R, c01Res+".(*Resolver).authority")
	pas := c.fobj(R, c01Res+".(*Resolver).processAuthoritySection")
	groupLookup := c.fobj(R, c01Res+".(*Resolver).groupLookup")
	isZoneSecure := c.fobj(R, c01Res+".(*Resolver).isZoneSecure")
	hasDS := c.fobj(R, c01Res+".hasSupportedDS")
	if adF == nil || cdF == nil || rcF == nil || dnssecF == nil || resolve == nil || setTagsFn == nil || setTags == nil || answer == nil || authority == nil || pas == nil || groupLookup == nil || isZoneSecure == nil || hasDS == nil {
		return
	}
	// upstream AD never passes through
	c.MustCross(R, setTagsFn, "return", isReturn, StoreBarrier("AD=false", adF, IsConstBool(false)))
	c.MustCross(R, resolve, "validator call", isCallTo(answer, authority, pas), CallBarrier("setTags", setTags))
	c.WhoMay(R, "Resolver.answer", c.CallSites(answer), map[string]string{"(*middleware/resolver.Resolver).resolve": "after setTags"})
	c.WhoMay(R, "Resolver.processAuthoritySection", c.CallSites(pas), map[string]string{"(*middleware/resolver.Resolver).resolve": "after setTags"})
	c.WhoMay(R, "Resolver.authority", c.CallSites(authority), map[string]string{
		"(*middleware/resolver.Resolver).resolve":                 "after setTags",
		"(*middleware/resolver.Resolver).processAuthoritySection": "message handed over by resolve after setTags",
	})
	// direct success returns
	upstream := func(e *Expr) bool {
		for _, l := range Origins(e, func(x *Expr) []int {
			if CallTo(setTags)(x) {
				return []int{2}
			}
			return nil
		}) {
			if ResultOf(0, groupLookup)(l) {
				return true
			}
		}
		return false
	}
	common := []Barrier{
		OnTrue("request CD", FieldIs(cdF)),
		OnFalse("r.dnssec", FieldIs(dnssecF)),
		OnFalse("isZoneSecure()", CallTo(isZoneSecure)),
		OnFalse("hasSupportedDS()", CallTo(hasDS)),
		// the validator was consulted on this very path and raised no error
		// (e.g. an empty reply checked by authority() before a clean message is built)
		OnFalse("answer()/authority() err", AnyOf(ResultOf(1, answer), ResultOf(1, authority))),
	}
	n := 0
	for _, in := range instrsWhere(resolve, isReturn) {
		r := in.(*ssa.Return)
		if in.Parent() != resolve || len(r.Results) != 2 || !IsNilConst(Desc(r.Results[1])) {
			continue
		}
		m := Desc(r.Results[0])
		if CallTo(answer, authority, pas)(m) {
			continue
		}
		n++
		kind, tag, bars := "locally fabricated reply", "fabricated-reply", common
		if upstream(m) {
			kind, tag = "upstream message as is", "upstream-message"
			bars = append(append([]Barrier{}, common...), OnCmp("rcode==NXDOMAIN fails", FieldIs(rcF), token.EQL, IsConstInt(3), false))
		}
		key := fmt.Sprintf("%s|resolve|bypass|%s", R, tag) // no blanks: usable as a known-findings key
		var bn []string
		for _, b := range bars {
			bn = append(bn, b.Name)
		}
		if ug, tr := c.unguarded(in, bars, resolve); ug {
			c.violation(R, key, instrPos(in), fmt.Sprintf("resolve returns (%s, nil) without answer()/authority() and without crossing {%s}: under a signed chain a denial without proof is served instead of SERVFAIL; path %s", kind, strings.Join(bn, " | "), tr))
		} else {
			c.ok(R, key, instrPos(in), kind+" returned only behind {"+strings.Join(bn, " | ")+"}")
		}
	}
	if n == 0 {
		c.ok(R, R+"|resolve|no direct success return", resolve.Pos(), "every success return of resolve is a validator's or a recursive call's result")
	}
	c.Floor(R, 12)
}

// c01IsDSLink: call is an exported function of the dnssec package whose name mentions DS, that takes a
// []dns.RR (the parent DS set) and whose result #idx is its trailing error.
func c01IsDSLink(call *Expr, idx int) bool {
	fo := call.Fn
	if fo == nil || fo.Pkg() == nil || !strings.HasSuffix(fo.Pkg().Path(), "/resolver/dnssec") || !fo.Exported() || !strings.Contains(fo.Name(), "DS") {
		return false
	}
	sig, _ := fo.Type().(*types.Signature)
	if sig == nil || sig.Results().Len() == 0 || idx != sig.Results().Len()-1 || !c01IsErrorType(sig.Results().At(idx).Type()) {
		return false
	}
	for i := 0; i < sig.Params().Len(); i++ {
		if sl, ok := sig.Params().At(i).Type().Underlying().(*types.Slice); ok {
			if n, ok := sl.Elem().(*types.Named); ok && n.Obj().Name() == "RR" {
				return true
			}
		}
	}
	return false
}

func c01IsDSLinkFunc(fo *types.Func) bool {
	if fo == nil {
		return false
	}
	sig, _ := fo.Type().(*types.Signature)
	if sig == nil || sig.Results().Len() == 0 {
		return false
	}
	return c01IsDSLink(&Expr{K: ECall, Fn: fo}, sig.Results().Len()-1)
}
