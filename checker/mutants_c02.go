package main

func init() {
	const (
		res   = "middleware/resolver/resolver.go"
		cch   = "middleware/cache/cache.go"
		pfq   = "middleware/cache/prefetch_queue.go"
		sto   = "middleware/cache/store.go"
		cut   = "middleware/cache/nxdomain_cut.go"
		chn   = "middleware/chain.go"
		nsec  = "middleware/resolver/dnssec/nsec.go"
		nsec3 = "middleware/resolver/dnssec/nsec3.go"
		aggr  = "middleware/resolver/dnssec/aggressive_negative.go"
	)
	addMutants("C02", []Mutant{
		// R1
		{ID: "c02-hit-readmits-proof", File: cch, Expect: "C02-R1",
			Old: "\tobserveAggressiveNegativeHit(kind, resp.Rcode)\n\t_ = ch.Writer.WriteMsg(resp)",
			New: "\tc.store.RecordDenialProof(resp, zone, kind, time.Time{})\n\tobserveAggressiveNegativeHit(kind, resp.Rcode)\n\t_ = ch.Writer.WriteMsg(resp)",
			Why: "a synthesised answer is re-admitted as if it were a validated upstream proof (third admission site, no isolation atoms)"},
		// R2
		{ID: "c02-writemsg-no-request-cd", File: cch, Expect: "C02-R2",
			Old: "\t\t!w.requestCD && !res.CheckingDisabled {", New: "\t\t!res.CheckingDisabled {",
			Why: "a CD=1 request whose response had CD cleared downstream publishes shared denial state"},
		{ID: "c02-writemsg-no-ecs-atom", File: cch, Expect: "C02-R2",
			Old: "if !w.clientScope.IsValid() && !w.requestHasECS &&\n\t\t!w.requestTreeBypassesSharedDenial &&", New: "if !w.clientScope.IsValid() &&\n\t\t!w.requestTreeBypassesSharedDenial &&",
			Why: "an ECS audience's denial becomes global"},
		{ID: "c02-writemsg-not-aggressive", File: cch, Expect: "C02-R2",
			Old: "ValidatedNegativeProofForResponse(ctx, res); ok &&\n\t\t\tnegative.Aggressive &&\n", New: "ValidatedNegativeProofForResponse(ctx, res); ok &&\n",
			Why: "proofs the RFC 8198 classifier refused (opt-out, rcode mismatch) are published"},
		{ID: "c02-prefetch-publishes-after-lost-cas", File: pfq, Expect: "C02-R2",
			Old: "\t\tzlog.Debug(\"Prefetch dropped, entry superseded\", \"query\", dnsutil.FormatQuestion(req.Request.Question[0]))\n\t\treturn\n\t}",
			New: "\t\tzlog.Debug(\"Prefetch dropped, entry superseded\", \"query\", dnsutil.FormatQuestion(req.Request.Question[0]))\n\t}",
			Why: "a stale refresh that lost the generation race creates subtree state"},
		{ID: "c02-prefetch-no-raw-ecs-atom", File: pfq, Expect: "C02-R2",
			Old: "\t\t!hasEDNSClientSubnet(req.Request) &&\n", New: ""},
		{ID: "c02-prefetch-zone-from-question", File: pfq, Expect: "C02-R2",
			Old: "\t\t\t\t\tnegative.Proof,\n\t\t\t\t\tnegative.Subject,\n\t\t\t\t\tnegative.Zone,", New: "\t\t\t\t\tnegative.Proof,\n\t\t\t\t\tresp.Question[0].Name,\n\t\t\t\t\tnegative.Zone,",
			Why: "the cut is attributed to the outer alias owner instead of the name the validator proved absent"},
		{ID: "c02-cut-any-rcode", File: cut, Expect: "C02-R2",
			Old: "\tif c == nil || msg == nil || msg.Rcode != dns.RcodeNameError ||\n\t\tmsg.CheckingDisabled {", New: "\tif c == nil || msg == nil ||\n\t\tmsg.CheckingDisabled {",
			Why: "a NODATA proof becomes a subtree cut"},
		// R3
		{ID: "c02-aggressive-ignores-rcode", File: res, Expect: "C02-R3",
			Old: "result, err := dnssec.EvaluateAggressiveNSEC(proofQuestion, chosenSigner, nsecSet)\n\t\t\t\t\t\tif err == nil && result.Rcode == resp.Rcode {",
			New: "result, err := dnssec.EvaluateAggressiveNSEC(proofQuestion, chosenSigner, nsecSet)\n\t\t\t\t\t\tif err == nil {",
			Why: "a proof the classifier reads as NODATA seeds shared NXDOMAIN state"},
		{ID: "c02-mark-without-secure", File: res, Expect: "C02-R3",
			Old: "if !req.CheckingDisabled && denialSecure && isNegative &&", New: "if !req.CheckingDisabled && isNegative &&",
			Why: "an opt-out proof (secure=false) earns provenance"},
		{ID: "c02-legacy-mark-aggressive", File: chn, Expect: "C02-R3",
			Old: "\t\t\tKind:    ValidatedNegativeProofUnknown,\n\t\t})", New: "\t\t\tKind:    ValidatedNegativeProofUnknown,\n\t\t\tAggressive: true,\n\t\t})",
			Why: "a third writer of the Aggressive flag, outside the validator"},
		// R4
		{ID: "c02-unfiltered-nsec", File: res, Expect: "C02-R4",
			Old: "\n\t\t\t\tnsecSet := dnsutil.FilterRRsToZone(dnsutil.ExtractRRSet(resp.Ns, \"\", dns.TypeNSEC), chosenSigner)", New: "\n\t\t\t\tnsecSet := dnsutil.ExtractRRSet(resp.Ns, \"\", dns.TypeNSEC)",
			Why: "unauthenticated sibling-zone NSECs satisfy the coverage checks"},
		{ID: "c02-filter-wrong-zone", File: res, Expect: "C02-R4",
			Old: "dnsutil.FilterRRsToZone(dnsutil.ExtractRRSet(dsResp.Ns, \"\", dns.TypeNSEC3), signer)", New: "dnsutil.FilterRRsToZone(dnsutil.ExtractRRSet(dsResp.Ns, \"\", dns.TypeNSEC3), child)",
			Why: "records filtered to the child zone, proof verified against the parent signer"},
		// R5
		{ID: "c02-cut-proof-accepts-optout", File: cut, Expect: "C02-R5",
			Old: "\tif dnsutil.HasNSEC3OptOut(msg.Ns, zone) {\n\t\treturn nil, nil, false\n\t}\n", New: ""},
		{ID: "c02-early-stop-on-optout", File: res, Expect: "C02-R5",
			Old: "negative.Proof.Rcode == dns.RcodeNameError &&\n\t\t\t\t\t!dnsutil.HasNSEC3OptOut(result.Ns, negative.Zone) {", New: "negative.Proof.Rcode == dns.RcodeNameError {"},
		{ID: "c02-nsec3-nxdomain-always-secure", File: nsec3, Expect: "C02-R5",
			Old: "\treturn !nextOptOut, nil", New: "\t_ = nextOptOut\n\treturn true, nil", Why: "opt-out NXDOMAIN earns AD"},
		{ID: "c02-aggressive-nsec3-optout-cover", File: aggr, Expect: "C02-R5",
			Old: "\tif nextCover.rr.Flags&1 != 0 {\n\t\treturn AggressiveNegativeResult{}, ErrNSECOptOut\n\t}\n", New: ""},
		// R6
		{ID: "c02-nodata-nsec-error-ignored", File: res, Expect: "C02-R6",
			Old: "zlog.Warn(\"NSEC verify failed (NODATA)\", \"query\", dnsutil.FormatQuestion(q), \"error\", err.Error())\n\t\t\t\t\t\t\t\treturn nil, err\n",
			New: "zlog.Warn(\"NSEC verify failed (NODATA)\", \"query\", dnsutil.FormatQuestion(q), \"error\", err.Error())\n"},
		{ID: "c02-proofless-negative-accepted", File: res, Expect: "C02-R6",
			Old: "\t\t\t\t\t\treturn nil, dnssec.ErrNSECMissingCoverage\n", New: "",
			Why: "a signed SOA without any NSEC/NSEC3 yields an AD=1 NXDOMAIN"},
		{ID: "c02-referral-without-proof-insecure", File: res, Expect: "C02-R6",
			Old: "FormatQuestion(q))\n\treturn nil, dnssec.ErrNSECMissingCoverage\n}", New: "FormatQuestion(q))\n\treturn []dns.RR{}, nil\n}",
			Why: "DS stripped from a referral downgrades the child to insecure"},
		// R7
		{ID: "c02-getwithcontext-no-raw-ecs", File: sto, Expect: "C02-R7",
			Old: "\t\thasEDNSClientSubnet(req) ||\n\t\tmiddleware.HasClientECS(ctx) ||", New: "\t\tmiddleware.HasClientECS(ctx) ||"},
		{ID: "c02-cut-lookup-for-scoped-client", File: cch, Expect: "C02-R7",
			Old: "\t\treq.CheckingDisabled || clientScope.IsValid() ||\n\t\tsharedDenialBypass(ctx) {\n\t\treturn nil\n\t}\n\tentry, _", New: "\t\treq.CheckingDisabled ||\n\t\tsharedDenialBypass(ctx) {\n\t\treturn nil\n\t}\n\tentry, _"},
		{ID: "c02-synth-ignores-conflict", File: "middleware/cache/denial_proof_cache.go", Expect: "C02-R7",
			Old: "\t\tif c.stopped ||\n\t\t\tc.nsec3SelectionConflictedLocked(entries, now) {", New: "\t\tif c.stopped {"},
		// R8
		{ID: "c02-nodata-nsec-cname-ignored", File: nsec, Expect: "C02-R8",
			Old: "// both and the NSEC path must match for consistency.\n\t\t\tif typesSet(nsec.TypeBitMap, q.Qtype, dns.TypeCNAME) {", New: "// both and the NSEC path must match for consistency.\n\t\t\tif typesSet(nsec.TypeBitMap, q.Qtype) {"},
		{ID: "c02-delegation-soa-dropped", File: nsec3, Expect: "C02-R8",
			Old: "\tif typesSet(types, dns.TypeDS, dns.TypeSOA) {", New: "\tif typesSet(types, dns.TypeDS) {", Why: "child apex NSEC3 proves an insecure delegation"},
		{ID: "c02-nsec3-ds-nodata-without-optout", File: nsec3, Expect: "C02-R8",
			Old: "\t\tif !optOut {\n\t\t\treturn false, ErrNSECOptOut\n\t\t}\n\t\treturn false, nil", New: "\t\t_ = optOut\n\t\treturn false, nil",
			Why: "a signed child is silently demoted to insecure during findDS walks"},
		{ID: "c02-wildcard-nodata-nsec-ds-from-apex", File: nsec, Expect: "C02-R8",
			Old: "\t\tif q.Qtype == dns.TypeDS && typesSet(nsec.TypeBitMap, dns.TypeSOA) {\n\t\t\treturn ErrNSECBadDelegation\n\t\t}\n\t\treturn nil\n\t}\n\treturn ErrNSECMissingCoverage\n}\n\n// canonicalNameCompare",
			New: "\t\treturn nil\n\t}\n\treturn ErrNSECMissingCoverage\n}\n\n// canonicalNameCompare"},
		{ID: "c02-closest-encloser-dname-ignored", File: nsec3, Expect: "C02-R8",
			Old: "\tif typesSet(proof.types, dns.TypeDNAME) ||\n\t\t(typesSet(proof.types, dns.TypeNS) &&", New: "\tif (typesSet(proof.types, dns.TypeNS) &&",
			Why: "a name below a DNAME is denied"},
		{ID: "c02-nsec3-nxdomain-no-wildcard-cover", File: nsec3, Expect: "C02-R8",
			Old: "\t_, _, err = findCovererWithWork(\n\t\t\"*.\"+closest.name,\n\t\tevaluator,\n\t)\n\tif err != nil {\n\t\treturn false, err\n\t}\n", New: "",
			Why: "a name a wildcard would answer is reported NXDOMAIN"},
		{ID: "c02-nodata-nsec-ancestor-owner", File: nsec, Expect: "C02-R8",
			Old: "if dns.CanonicalName(nsec.Header().Name) == dns.CanonicalName(qname) {", New: "if dnsutil.NameInZone(dns.CanonicalName(qname), dns.CanonicalName(nsec.Header().Name)) {",
			Why: "an ancestor's NSEC bitmap proves NODATA for a descendant"},
		{ID: "c02-nsec3-cover-error-ignored", File: nsec3, Expect: "C02-R8",
			Old: "\t_, optOut, err := findCovererWithWork(\n\t\tclosest.nextCloser,\n\t\tevaluator,\n\t)\n\tif err != nil {\n\t\treturn false, err\n\t}\n\twildcardTypes, err :=",
			New: "\t_, optOut, _ := findCovererWithWork(\n\t\tclosest.nextCloser,\n\t\tevaluator,\n\t)\n\twildcardTypes, err :=",
			Why: "wildcard NODATA accepted although the next-closer name is not covered"},
	})
}
