package main

// C05-R13 (finding F-C05-1) — the decoded path spells question-owned records
// the way the byte path cannot help spelling them.
//
// The byte path copies the stored, *compressed* body and writes the client's
// question name over the stored one; every record whose owner is the question
// is a pointer to that name and therefore reads — and stays two octets long —
// in the client's spelling.  The decoded path unpacks the same stored body
// (owners in the spelling of whoever caused the entry to be stored) and then
// installs the client's question with SetReply.  The library compresses by
// exact spelling, so unless the decoded path also gives those owners the
// client's spelling its reply is longer than the byte path's and the size gate
// (udpOverflow) truncates a reply the byte path serves whole.
//
// Decided here, structurally: every function that materialises a reply from
// the stored body (dns.Msg.Unpack of CacheEntry.wire, directly or through a
// helper, followed by SetReply(req) on that message) contains, for each of
// the three record sections of that message, a store into RR_Header.Name of a
// record taken from the section whose value originates in
// req.Question[·].Name — req being the very message handed to SetReply.
// Stores are looked for in the function, its closures and unexported helpers;
// helper parameters are resolved to the call's arguments.

import (
	"fmt"
	"go/types"
	"sort"
	"strings"

	"golang.org/x/tools/go/ssa"
)

func init() {
	wrap := func(id string, extra func(c *Ctx), explain string) {
		pd := props[id]
		if pd == nil {
			return
		}
		orig := pd.Run
		pd.Run = func(c *Ctx) { orig(c); extra(c) }
		pd.Explanation += " " + explain
	}
	wrap("C05", c05R13, "R13 (F-C05-1): a reply decoded from a stored body gives the records of every section the client's spelling of the question name (a store into RR_Header.Name originating in req.Question[·].Name), as the byte path does through the compression pointers to the echoed question — otherwise the two paths pack to different sizes and disagree about truncation.")
}

// fActivations lists, for function g inside top's scope (top itself, its
// closures, unexported same-package helpers up to two calls deep), the
// argument lists g can be entered with, every argument expressed in top's own
// values.  nil element = g is top (or a closure of it): no substitution.
func fActivations(top, g *ssa.Function, depth int) [][]*Expr {
	if g == top {
		return [][]*Expr{nil}
	}
	if depth > 3 {
		return nil
	}
	compose := func(caller *ssa.Function, cc *ssa.CallCommon) [][]*Expr {
		args := make([]*Expr, len(cc.Args))
		for i, a := range cc.Args {
			args[i] = Desc(a)
		}
		var out [][]*Expr
		for _, outer := range fActivations(top, caller, depth+1) {
			if outer == nil {
				out = append(out, args)
				continue
			}
			sub := make([]*Expr, len(args))
			for i, a := range args {
				sub[i] = inActivation(a, outer)
			}
			out = append(out, sub)
		}
		return out
	}
	var out [][]*Expr
	if g.Parent() != nil {
		// a function literal: entered wherever its value is called inside the enclosing function
		// (parameters = that call's arguments); free variables are resolved by Desc itself.
		if len(g.Params) == 0 {
			return fActivations(top, g.Parent(), depth+1)
		}
		for _, caller := range WithAnons(TopLevel(g)) {
			for _, b := range caller.Blocks {
				for _, in := range b.Instrs {
					cc := callCommon(in)
					if cc == nil || cc.IsInvoke() {
						continue
					}
					for _, l := range Origins(Desc(cc.Value), nil) {
						if l = strip(l); l != nil && (l.K == EClosure || l.K == EFunc) && l.SFn == g {
							out = append(out, compose(caller, cc)...)
							break
						}
					}
				}
			}
		}
		return out
	}
	for _, caller := range scopeFuncs(top) {
		if TopLevel(caller) == g {
			continue
		}
		for _, b := range caller.Blocks {
			for _, in := range b.Instrs {
				cc := callCommon(in)
				if cc == nil || localHelper(caller, cc) != g {
					continue
				}
				out = append(out, compose(caller, cc)...)
			}
		}
	}
	return out
}

func c05R13(c *Ctx) {
	const R = "C05-R13"
	const pkg = "middleware/cache"
	c.Doc(R, "every function that builds a reply by unpacking the stored body (dns.Msg.Unpack of CacheEntry.wire, directly or via an unexported helper) and SetReply(req) on it stores, for each of Answer / Ns / Extra of that message, the client's spelling — a value originating in req.Question[·].Name — into RR_Header.Name of the section's records (in the function, a closure or an unexported helper). The byte path echoes that spelling into every question-owned record through the compression pointers of the stored body; the library compresses by exact spelling, so a decoded reply that keeps the stored spelling is len(qname)-2 octets longer and can be truncated where the byte path answers in full")
	unpack := c.fobj(R, "github.com/miekg/dns.(*Msg).Unpack")
	setReply := c.fobj(R, "github.com/miekg/dns.(*Msg).SetReply")
	wireF := c.field(R, pkg+".CacheEntry.wire")
	hdrName := c.field(R, "github.com/miekg/dns.RR_Header.Name")
	qName := c.field(R, "github.com/miekg/dns.Question.Name")
	msgQ := c.field(R, "github.com/miekg/dns.Msg.Question")
	secs := []*types.Var{
		c.field(R, "github.com/miekg/dns.Msg.Answer"),
		c.field(R, "github.com/miekg/dns.Msg.Ns"),
		c.field(R, "github.com/miekg/dns.Msg.Extra"),
	}
	if unpack == nil || setReply == nil || wireF == nil || hdrName == nil || qName == nil || msgQ == nil || secs[0] == nil || secs[1] == nil || secs[2] == nil {
		return
	}

	// --- premise, recorded: the byte path writes the client's name over the stored question.
	packName := c.fobj(R, "github.com/miekg/dns.PackDomainName")
	wireName := c.fobj(R, "middleware.(*Request).WireName")
	applyReply := c.fobj(R, "internal/wire.ApplyReply")
	if packName != nil && wireName != nil && applyReply != nil {
		var echoers []string
		for _, fn := range c.P.FuncsInPkg(pkg) {
			if fn.Parent() != nil || len(instrsWhere(fn, isPlainCallTo(applyReply))) == 0 {
				continue
			}
			echo := false
			for _, in := range instrsWhere(fn, func(in ssa.Instruction) bool { return callCommon(in) != nil }) {
				cc := callCommon(in)
				if callIs(cc, packName) && len(cc.Args) > 0 {
					for _, l := range Origins(Desc(cc.Args[0]), nil) {
						if FieldIs(qName)(l) {
							echo = true
						}
					}
				}
				if b, ok := cc.Value.(*ssa.Builtin); ok && b.Name() == "copy" && len(cc.Args) == 2 {
					if Contains(CallTo(wireName))(Desc(cc.Args[1])) {
						echo = true
					}
				}
			}
			if echo {
				echoers = append(echoers, fnKey(fn))
			}
		}
		sort.Strings(echoers)
		if len(echoers) == 0 {
			c.unresolved(R, "byte path echo", "no byte-path builder in middleware/cache writes the client's question name into the copied body any more (PackDomainName of req.Question[·].Name / copy of Request.WireName()): the premise of this rule has changed, re-derive it")
		} else {
			c.ok(R, R+"|byte path|client's question spelling written over the stored name", 0, "byte-path builders that echo the spelling: "+strings.Join(echoers, ", "))
		}
	}

	// --- which values are "a message unpacked from the stored body"
	isUnpackStored := func(in ssa.Instruction) bool {
		if !isCallTo(unpack)(in) {
			return false
		}
		a := callArg(in, 1)
		return a != nil && Contains(FieldIs(wireF))(Desc(a))
	}
	// receivers of Unpack(e.wire) inside f
	unpackedIn := func(f *ssa.Function) map[ssa.Value]bool {
		m := map[ssa.Value]bool{}
		for _, in := range instrsWhere(f, isUnpackStored) {
			if r := callArg(in, 0); r != nil {
				m[r] = true
			}
		}
		return m
	}
	var fromStored func(f *ssa.Function, v ssa.Value, depth int) bool
	fromStored = func(f *ssa.Function, v ssa.Value, depth int) bool {
		un := unpackedIn(f)
		if un[v] {
			return true
		}
		for _, l := range Origins(Desc(v), nil) {
			l = strip(l)
			if l == nil {
				continue
			}
			if l.V != nil && un[l.V] {
				return true
			}
			call := l
			if l.K == EExtract && l.X != nil {
				call = l.X
			}
			if call.K == ECall && depth < 2 {
				if cl, ok := call.V.(*ssa.Call); ok {
					if h := localHelper(f, &cl.Call); h != nil {
						for _, b := range h.Blocks {
							for _, in := range b.Instrs {
								if ret, ok := in.(*ssa.Return); ok {
									for _, rv := range ret.Results {
										if _, isPtr := rv.Type().Underlying().(*types.Pointer); isPtr && fromStored(h, rv, depth+1) {
											return true
										}
									}
								}
							}
						}
					}
				}
			}
		}
		return false
	}

	nMat := 0
	for _, fn := range c.P.FuncsInPkg(pkg) {
		if fn.Parent() != nil {
			continue
		}
		for _, sr := range instrsWhere(fn, isCallTo(setReply)) {
			if sr.Parent() != fn {
				continue
			}
			msg, req := callArg(sr, 0), callArg(sr, 1)
			if msg == nil || req == nil || !fromStored(fn, msg, 0) {
				continue
			}
			nMat++
			reqS := Desc(req).String()
			// "the client's spelling": Question[·].Name read off the message given to SetReply
			clientName := func(l *Expr) bool {
				l = strip(l)
				if l == nil || l.K != EField || l.Var == nil || l.Var.Origin() != qName {
					return false
				}
				return Contains(func(x *Expr) bool {
					x = strip(x)
					return x != nil && x.K == EField && x.Var != nil && x.Var.Origin() == msgQ && x.X != nil && x.X.String() == reqS
				})(l)
			}
			type hit struct {
				client bool
				other  []string
			}
			found := map[*types.Var]*hit{}
			for _, g := range scopeFuncs(fn) {
				var stores []*ssa.Store
				for _, b := range g.Blocks {
					for _, in := range b.Instrs {
						if st, ok := in.(*ssa.Store); ok && isFieldStore(in, hdrName, nil) {
							stores = append(stores, st)
						}
					}
				}
				if len(stores) == 0 {
					continue
				}
				acts := fActivations(fn, g, 0)
				for _, st := range stores {
					addr, val := Desc(st.Addr), Desc(st.Val)
					for _, act := range acts {
						a, v := inActivation(addr, act), inActivation(val, act)
						isClient := false
						var others []string
						for _, l := range Origins(v, nil) {
							switch {
							case clientName(l):
								isClient = true
							case IsAnyConst(l):
							default:
								others = append(others, l.String())
							}
						}
						for _, s := range secs {
							if !Contains(FieldIs(s))(a) {
								continue
							}
							h := found[s]
							if h == nil {
								h = &hit{}
								found[s] = h
							}
							if isClient {
								h.client = true
							} else {
								h.other = append(h.other, others...)
							}
						}
					}
				}
			}
			for _, s := range secs {
				key := fmt.Sprintf("%s|%s|%s owners take the client's spelling of the question", R, fnKey(fn), s.Name())
				h := found[s]
				switch {
				case h != nil && h.client:
					c.ok(R, key, instrPos(sr), "RR_Header.Name of the section's records is stored from req.Question[·].Name")
				case h != nil:
					c.violation(R, key, instrPos(sr), fmt.Sprintf("the owners of %s records are rewritten, but never from the question of the request handed to SetReply (origins: %s): the byte path spells question-owned records as the client asked, so the two replies pack to different sizes", s.Name(), trunc(strings.Join(h.other, " ; "), 200)))
				default:
					c.violation(R, key, instrPos(sr), fmt.Sprintf("the reply is unpacked from the stored body and given the client's question by SetReply, but the %s records keep the owner spelling the entry was stored under: the byte path serves them in the client's spelling (pointer to the echoed question, 2 octets), the library compresses by exact spelling, so this reply is up to len(qname)-2 octets longer per differing owner and is truncated at a UDP ceiling the byte-path reply fits under (same packet, same cache state: TC=1 / empty sections here, full answer there)", s.Name()))
				}
			}
		}
	}
	if nMat == 0 {
		c.unresolved(R, "materialiser", "no function in middleware/cache unpacks CacheEntry.wire into a message and SetReply()s it any more: the decoded hit path has moved, re-anchor the rule")
	}
}
