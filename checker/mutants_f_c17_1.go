package main

func init() {
	addMutants("C17", []Mutant{
		{ID: "f-c17-1-qdcount-formerr-ungated", File: "server/server.go", Expect: "C17-R7|(*server.Server).serveMsgBy|reply ahead of the chain (Transport.WriteMsg) behind the source gate",
			Old: "\t\tif !s.AdmitsSource(w) {\n\t\t\treturn\n\t\t}\n",
			New: "",
			Why: "re-introduces F-C17-1 on the decoded entry: a source outside the access list gets the QDCOUNT FORMERR (DoH, DoQ, raw fallback, embedders)"},
		{ID: "f-c17-1-udp-reject-ungated", File: "server/udp_engine.go", Expect: "C17-R7|(*server.udpJob).rejectInPlace|reply ahead of the chain (Write) behind the source gate",
			Old: "\tif g, ok := j.engine.handler.(sourceGate); ok && !g.AdmitsSource(j) {\n\t\t// An excluded source hears nothing, rejections included.\n\t\tudpDropIgnored.Inc()\n\t\treturn\n\t}\n",
			New: "",
			Why: "re-introduces F-C17-1 on UDP: the bare-header NOTIMP/FORMERR goes back to an excluded (possibly spoofed) source"},
		{ID: "f-c17-1-pipeline-gate-ignores-deny", File: "middleware/pipeline.go", Expect: "C17-R7|(*middleware.Pipeline).AdmitsSource|gate returns the access list's verdict",
			Old: "ok && !a.AdmitsSource(ip) {\n\t\t\treturn false\n\t\t}",
			New: "ok && !a.AdmitsSource(ip) {\n\t\t\tcontinue\n\t\t}",
			Why: "the gate exists and is asked, but the access list's no is not propagated: every site is 'guarded' and still answers excluded sources"},
		{ID: "f-c17-1-accesslist-gate-constant", File: "middleware/accesslist/accesslist.go", Expect: "C17-R7|(*middleware/accesslist.List).AdmitsSource|gate returns the access list's verdict",
			Old: "func (a *List) AdmitsSource(ip net.IP) bool { return a.allowed.ContainsIP(ip) }",
			New: "func (a *List) AdmitsSource(ip net.IP) bool { return len(ip) > 0 }",
			Why: "the bottom of the gate no longer asks the configured set"},
	})
}
