package main

// Regression mutants for the rules registered under a second property after red
// wave 5 (C01-R22 = C02-R15, C02-R16 = C01-R15).

func init() {
	addMutants("C01", []Mutant{
		{ID: "c01-chase-ad-fold-skips-nodata", File: "middleware/cache/cache.go", Expect: "C01-R22",
			Old: "if err == nil && respCname != nil && !respCname.AuthenticatedData {",
			New: "if err == nil && respCname != nil && (respCname.Rcode != dns.RcodeSuccess || len(respCname.Answer) > 0) && !respCname.AuthenticatedData {",
			Why: "red wave 5 (C01-w5g2c2 family): the chase's AD fold skips a target NOERROR without answer records — the unauthenticated NODATA leaves under the alias's AD=1"},
	})
	addMutants("C02", []Mutant{
		{ID: "c02-wildcard-owner-never-expanded", File: "middleware/resolver/dnssec/verify.go", Expect: "C02-R16",
			Old: "\tif strings.HasPrefix(owner, \"*.\") {\n\t\tlabels--\n\t}\n\treturn int(sig.Labels) < labels\n",
			New: "\tif strings.HasPrefix(owner, \"*.\") {\n\t\treturn false\n\t}\n\treturn int(sig.Labels) < labels\n",
			Why: "red wave 5 (C02-w5g1c2): any *.-prefixed owner is never classed as reconstructed, so the shallow wildcard's NSEC re-owned to *.sub.wild.test. verifies and denies a name that exists"},
	})
}
