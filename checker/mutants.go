package main

// Mutation catalogue (thorough tier): seeded breaking edits of sdns itself,
// applied in memory through packages.Config.Overlay — no copy of the repo is
// written.  One mutant per subprocess.

import (
	"bytes"
	"encoding/json"
	"fmt"
	"os"
	"os/exec"
	"path/filepath"
	"runtime"
	"strings"
	"sync"
)

type Mutant struct {
	ID     string
	File   string // module-relative
	Old    string // snippet that must occur exactly once
	New    string
	Expect string // substring expected in the rule id / key of a reported non-ok result
	Why    string
}

var mutantSets = map[string][]Mutant{}

func addMutants(id string, ms []Mutant) { mutantSets[id] = append(mutantSets[id], ms...) }

type MutantResult struct {
	ID     string `json:"id"`
	Status string `json:"status"` // caught | missed | inapplicable | discarded(type error)
	Detail string `json:"detail,omitempty"`
	Expect string `json:"expect"`
}

type childOut struct {
	Applied bool     `json:"applied"`
	LoadErr string   `json:"load_err,omitempty"`
	Keys    []string `json:"keys"`
	Panic   string   `json:"panic,omitempty"`
}

func findMutant(pd *PropDef, id string) *Mutant {
	for i := range pd.Mutants {
		if pd.Mutants[i].ID == id {
			return &pd.Mutants[i]
		}
	}
	return nil
}

func runMutantChild(pd *PropDef, repo, id string) int {
	m := findMutant(pd, id)
	out := childOut{}
	enc := func() int {
		b, _ := json.Marshal(out)
		fmt.Printf("MUTANT-RESULT %s\n", b)
		return 0
	}
	if m == nil {
		out.LoadErr = "no such mutant"
		return enc()
	}
	path := filepath.Join(repo, m.File)
	src, err := os.ReadFile(path)
	if err != nil || bytes.Count(src, []byte(m.Old)) != 1 {
		out.Applied = false
		return enc()
	}
	out.Applied = true
	mutated := bytes.Replace(src, []byte(m.Old), []byte(m.New), 1)
	res, _, _, lerr := runConfig(pd, repo, quickConfigs[0], map[string][]byte{path: mutated})
	if lerr != nil {
		out.LoadErr = lerr.Error()
		return enc()
	}
	for _, r := range res {
		if r.Status != StOK {
			out.Keys = append(out.Keys, string(r.Status)+" "+r.Rule+" "+r.Key)
		}
	}
	return enc()
}

func runMutants(pd *PropDef, repo string) []MutantResult {
	self, _ := os.Executable()
	results := make([]MutantResult, len(pd.Mutants))
	par := runtime.NumCPU() / 3
	if par < 1 {
		par = 1
	}
	if par > 5 {
		par = 5
	}
	sem := make(chan struct{}, par)
	var wg sync.WaitGroup
	for i := range pd.Mutants {
		wg.Add(1)
		go func(i int) {
			defer wg.Done()
			sem <- struct{}{}
			defer func() { <-sem }()
			m := pd.Mutants[i]
			mr := MutantResult{ID: m.ID, Expect: m.Expect}
			cmd := exec.Command(self, "-property", pd.ID, "-repo", repo, "-mutant", m.ID)
			var ob bytes.Buffer
			cmd.Stdout = &ob
			cmd.Stderr = &ob
			err := cmd.Run()
			var co childOut
			found := false
			for _, ln := range strings.Split(ob.String(), "\n") {
				if strings.HasPrefix(ln, "MUTANT-RESULT ") {
					if json.Unmarshal([]byte(ln[len("MUTANT-RESULT "):]), &co) == nil {
						found = true
					}
				}
			}
			switch {
			case !found:
				mr.Status = "missed"
				mr.Detail = fmt.Sprintf("child failed: %v %s", err, trunc(ob.String(), 300))
			case !co.Applied:
				mr.Status = "inapplicable"
				mr.Detail = "anchor snippet does not occur exactly once in the current tree"
			case co.LoadErr != "":
				mr.Status = "discarded"
				mr.Detail = "does not type-check: " + trunc(co.LoadErr, 200)
			default:
				mr.Status = "missed"
				mr.Detail = fmt.Sprintf("%d non-ok results, none matching %q", len(co.Keys), m.Expect)
				for _, k := range co.Keys {
					if strings.Contains(k, m.Expect) {
						mr.Status = "caught"
						mr.Detail = trunc(k, 240)
						break
					}
				}
			}
			results[i] = mr
		}(i)
	}
	wg.Wait()
	return results
}
