package main

import (
	"fmt"
	"go/constant"
	"go/token"
	"go/types"
	"math"

	"golang.org/x/tools/go/ssa"
)

// ---------------------------------------------------------------------------
// R6 the UDP ceiling is a clamp — a small interval evaluation over SSA values

type x5Ival struct {
	lo, hi int64
	known  bool
}

func (a x5Ival) String() string {
	if !a.known {
		return "[?]"
	}
	return fmt.Sprintf("[%d,%d]", a.lo, a.hi)
}

func (a x5Ival) within(lo, hi int64) bool { return a.known && a.lo >= lo && a.hi <= hi }

func x5IvUnion(a, b x5Ival) x5Ival {
	if !a.known || !b.known {
		return x5Ival{}
	}
	return x5Ival{min(a.lo, b.lo), max(a.hi, b.hi), true}
}

func x5TypeRange(t types.Type) x5Ival {
	b, ok := t.Underlying().(*types.Basic)
	if !ok {
		return x5Ival{}
	}
	switch b.Kind() {
	case types.Uint8:
		return x5Ival{0, math.MaxUint8, true}
	case types.Uint16:
		return x5Ival{0, math.MaxUint16, true}
	case types.Uint32:
		return x5Ival{0, math.MaxUint32, true}
	case types.Int8:
		return x5Ival{math.MinInt8, math.MaxInt8, true}
	case types.Int16:
		return x5Ival{math.MinInt16, math.MaxInt16, true}
	case types.Int32:
		return x5Ival{math.MinInt32, math.MaxInt32, true}
	case types.Int, types.Int64:
		return x5Ival{math.MinInt64, math.MaxInt64, true}
	}
	return x5Ival{}
}

type x5IvalEval struct {
	results map[string]x5Ival // "calleeKey#idx" → interval proven for that result
}

func (ev *x5IvalEval) eval(v ssa.Value, depth int) x5Ival {
	if v == nil || depth > 24 {
		return x5Ival{}
	}
	switch x := v.(type) {
	case *ssa.Const:
		if x.Value != nil && x.Value.Kind() == constant.Int {
			if i, ok := constant.Int64Val(x.Value); ok {
				return x5Ival{i, i, true}
			}
		}
		return x5Ival{}
	case *ssa.Convert:
		in := ev.eval(x.X, depth+1)
		tr := x5TypeRange(x.Type())
		if in.known && tr.known && in.lo >= tr.lo && in.hi <= tr.hi {
			return in // value-preserving widening
		}
		return tr
	case *ssa.Call:
		if b, ok := x.Call.Value.(*ssa.Builtin); ok && (b.Name() == "min" || b.Name() == "max") && len(x.Call.Args) > 0 {
			acc := ev.eval(x.Call.Args[0], depth+1)
			for _, a := range x.Call.Args[1:] {
				o := ev.eval(a, depth+1)
				if !acc.known || !o.known {
					// min with a known bound still bounds one side
					if b.Name() == "min" && (acc.known || o.known) {
						k := acc
						if !k.known {
							k = o
						}
						acc = x5Ival{math.MinInt64, k.hi, true}
						continue
					}
					if b.Name() == "max" && (acc.known || o.known) {
						k := acc
						if !k.known {
							k = o
						}
						acc = x5Ival{k.lo, math.MaxInt64, true}
						continue
					}
					return x5Ival{}
				}
				if b.Name() == "min" {
					acc = x5Ival{min(acc.lo, o.lo), min(acc.hi, o.hi), true}
				} else {
					acc = x5Ival{max(acc.lo, o.lo), max(acc.hi, o.hi), true}
				}
			}
			return acc
		}
		return x5TypeRange(x.Type())
	case *ssa.Extract:
		if call, ok := x.Tuple.(*ssa.Call); ok {
			if fo, _, _ := calleeObj(&call.Call); fo != nil {
				if r, ok := ev.results[fmt.Sprintf("%s#%d", funcObjKey(fo), x.Index)]; ok {
					return r
				}
			}
		}
		return x5TypeRange(x.Type())
	case *ssa.Phi:
		var acc x5Ival
		for i, e := range x.Edges {
			if e == v {
				continue
			}
			r := ev.refine(e, x.Block().Preds[i], x.Block(), ev.eval(e, depth+1), depth)
			if i == 0 || !x5AccSet(acc) {
				acc = r
				if !r.known {
					return x5Ival{}
				}
				continue
			}
			acc = x5IvUnion(acc, r)
			if !acc.known {
				return x5Ival{}
			}
		}
		return acc
	}
	return x5TypeRange(v.Type())
}

func x5AccSet(a x5Ival) bool { return a.known }

// refine narrows the interval of value x on the CFG edge pred→succ when pred
// ends in a comparison of x with a constant-valued operand.
func (ev *x5IvalEval) refine(x ssa.Value, pred, succ *ssa.BasicBlock, cur x5Ival, depth int) x5Ival {
	if !cur.known || len(pred.Instrs) == 0 {
		return cur
	}
	iff, ok := pred.Instrs[len(pred.Instrs)-1].(*ssa.If)
	if !ok {
		return cur
	}
	cmp, ok := iff.Cond.(*ssa.BinOp)
	if !ok {
		return cur
	}
	op := cmp.Op
	var other ssa.Value
	switch {
	case cmp.X == x:
		other = cmp.Y
	case cmp.Y == x:
		other = cmp.X
		if s, ok := swapOp[op]; ok {
			op = s
		} else {
			return cur
		}
	default:
		return cur
	}
	k := ev.eval(other, depth+1)
	if !k.known || k.lo != k.hi {
		return cur
	}
	if pred.Succs[0] == succ && pred.Succs[1] == succ {
		return cur
	}
	if pred.Succs[1] == succ { // false edge
		n, ok := negOp[op]
		if !ok {
			return cur
		}
		op = n
	} else if pred.Succs[0] != succ {
		return cur
	}
	c := k.lo
	switch op {
	case token.LSS:
		cur.hi = min(cur.hi, c-1)
	case token.LEQ:
		cur.hi = min(cur.hi, c)
	case token.GTR:
		cur.lo = max(cur.lo, c+1)
	case token.GEQ:
		cur.lo = max(cur.lo, c)
	case token.EQL:
		cur.lo, cur.hi = max(cur.lo, c), min(cur.hi, c)
	}
	return cur
}

func c06R6(c *Ctx) {
	const R = "C06-R6"
	c.Doc(R, "DefaultMsgSize=1232, MinMsgSize=512; SetEdns0's size result and edns.serveWire's min(max(adv,Min),Default) lie in [512,1232] for every advertised size (interval evaluation over the SSA phis with branch refinement); ResponseWriter.size is stored only from such a value or from MaxMsgSize on the Proto()∈{tcp,doq,doh} arm; on udp the delegate WriteMsg crosses udpOverflow(m, w.size), the delegate WriteWire crosses len(body) > w.size, WireReady folds w.size into MaxSize; udpOverflow answers false only when Len() ≤ limit")
	a := c06Anchors(c, R)
	if a == nil {
		return
	}
	c.ConstBound(R, "internal/dnsutil.DefaultMsgSize", token.EQL, 1232, "RFC 9715 / DNS flag day 2020 UDP ceiling the property names")
	c.ConstBound(R, x5DnsPkg+".MinMsgSize", token.EQL, 512, "RFC 1035 floor the property names")
	lo, ok1 := x5ConstInt64(c, R, x5DnsPkg+".MinMsgSize")
	hi, ok2 := x5ConstInt64(c, R, "internal/dnsutil.DefaultMsgSize")
	maxMsg, ok3 := x5ConstInt64(c, R, x5DnsPkg+".MaxMsgSize")
	setEdns0 := c.fn(R, "internal/dnsutil.SetEdns0")
	setEdns0Obj := c.fobj(R, "internal/dnsutil.SetEdns0")
	if !ok1 || !ok2 || !ok3 || setEdns0 == nil {
		return
	}
	ev := &x5IvalEval{results: map[string]x5Ival{}}
	// SetEdns0 result #1
	{
		var acc x5Ival
		n := 0
		for _, in := range returnsWhere(setEdns0, 1, nil) {
			r := ev.eval(in.(*ssa.Return).Results[1], 0)
			if n == 0 {
				acc = r
			} else {
				acc = x5IvUnion(acc, r)
			}
			n++
		}
		key := "C06-R6|SetEdns0|size result interval"
		if n == 0 {
			c.unresolved(R, key, "no return found")
		} else if acc.within(lo, hi) {
			c.ok(R, key, setEdns0.Pos(), fmt.Sprintf("SetEdns0 size ∈ %s ⊆ [%d,%d] for every advertised size", acc, lo, hi))
			ev.results[funcObjKey(setEdns0Obj)+"#1"] = acc
		} else {
			c.violation(R, key, setEdns0.Pos(), fmt.Sprintf("SetEdns0 may return size ∈ %s, outside [%d,%d]: a UDP client can be sent more than max(512,min(adv,1232)) bytes", acc, lo, hi))
		}
	}
	// stores to ResponseWriter.size
	stream := []Barrier{}
	for _, p := range []string{"tcp", "doq", "doh"} {
		stream = append(stream, OnCmp("Proto()==\""+p+"\"", MethodNamed("Proto"), token.EQL, x5IsConstString(p), true))
	}
	nStores := 0
	for _, s := range c.StoreSites(a.size) {
		nStores++
		fn := s.Fn
		key := "C06-R6|" + fnKey(TopLevel(fn)) + "|ResponseWriter.size"
		var bad []string
		var walk func(v ssa.Value, d int)
		seen := map[ssa.Value]bool{}
		walk = func(v ssa.Value, d int) {
			if seen[v] || d > 20 {
				return
			}
			seen[v] = true
			if r := ev.eval(v, 0); r.within(lo, hi) {
				return
			}
			phi, ok := v.(*ssa.Phi)
			if !ok {
				bad = append(bad, fmt.Sprintf("%s ∈ %s", trunc(Desc(v).String(), 80), ev.eval(v, 0)))
				return
			}
			for i, e := range phi.Edges {
				if r := ev.refine(e, phi.Block().Preds[i], phi.Block(), ev.eval(e, 0), 0); r.within(lo, hi) {
					continue
				}
				if k, ok := e.(*ssa.Const); ok && IsConstInt(maxMsg)(Desc(k)) {
					pb := phi.Block().Preds[i]
					r := reach(entryPoint(fn), stream, nil)
					if len(pb.Instrs) > 0 && r.visited[pb.Instrs[0]] {
						bad = append(bad, "MaxMsgSize assigned outside the Proto()∈{tcp,doq,doh} arm; path "+c.trail(r, pb.Instrs[0]))
					}
					continue
				}
				walk(e, d+1)
			}
		}
		walk(s.Val, 0)
		c.x5Decide(R, key, instrPos(s.Instr), len(bad) == 0, fmt.Sprintf("size ∈ [%d,%d], or MaxMsgSize on a stream transport", lo, hi), "UDP ceiling can exceed the clamp: "+fmt.Sprint(bad))
	}
	if nStores < 2 {
		c.unresolved(R, "ResponseWriter.size stores", fmt.Sprintf("expected 2 (ServeDNS, serveWire), found %d", nStores))
	}
	// every UDP write is compared with w.size
	udpOverflow := c.fobj(R, "middleware/edns.udpOverflow")
	fTrunc := c.field(R, x5DnsPkg+".MsgHdr.Truncated")
	maxSize := c.field(R, "middleware.WireCapability.MaxSize")
	if udpOverflow == nil || fTrunc == nil || maxSize == nil {
		return
	}
	// the limit is w.size itself, or a value that is w.size on every edge a udp
	// reply can take: a phi whose other operands (the stream transports' protocol
	// maximum) flow in only across Proto() != "udp" (F-C11-2: the same test now
	// bounds stream replies by dns.MaxMsgSize)
	limitIsSizeOnUDP := func(lim *Expr) bool {
		lim = strip(lim)
		if lim == nil {
			return false
		}
		if FieldIs(a.size)(lim) {
			return true
		}
		phi, ok := lim.V.(*ssa.Phi)
		if !ok || lim.K != EPhi {
			return false
		}
		hasSize := false
		for i, ev := range phi.Edges {
			if FieldIs(a.size)(Desc(ev)) {
				hasSize = true
				continue
			}
			if i >= len(phi.Block().Preds) || !c.edgeGuarded(phi.Block().Preds[i], phi.Block(), []Barrier{x5ProtoIsUDP(false)}, TopLevel(phi.Parent())) {
				return false
			}
		}
		return hasSize
	}
	overflowOnSize := func(e *Expr) bool {
		e = strip(e)
		return CallTo(udpOverflow)(e) && len(e.Args) == 2 && limitIsSizeOnUDP(e.Args[1])
	}
	delegate := func(in ssa.Instruction) bool {
		cc := callCommon(in)
		return cc != nil && cc.IsInvoke() && x5MsgWriteArg(in) != nil
	}
	c.MustCross(R, a.writeMsg, "delegate WriteMsg (UDP size)", delegate, x5ProtoIsUDP(false), OnFalse("udpOverflow(m,w.size)", overflowOnSize), StoreBarrier("Truncated=true", fTrunc, IsConstBool(true)))
	c.AfterEdge(R, a.writeMsg, "udp edge reaches the delegate unmeasured", x5ProtoIsUDP(true), delegate, OnFalse("udpOverflow(m,w.size)", overflowOnSize), OnTrue("udpOverflow(m,w.size)", overflowOnSize))
	for _, in := range instrsWhere(a.writeWire, func(in ssa.Instruction) bool {
		cc := callCommon(in)
		return cc != nil && cc.IsInvoke() && cc.Method.Name() == "WriteWire"
	}) {
		body := Desc(callCommon(in).Args[0]).String()
		fits := OnCmp("len(body)>w.size", x5LenOf(x5SameDesc(body)), token.GTR, FieldIs(a.size), false)
		ug, tr := c.unguarded(in, []Barrier{x5ProtoIsUDP(false), fits}, a.writeWire)
		c.x5Decide(R, "C06-R6|edns.WriteWire|delegate WriteWire (UDP size)", instrPos(in), !ug, "the bytes handed on were compared with w.size on udp", "on udp the delegate WriteWire is reached without len(<these bytes>) > w.size → fallback; path "+tr)
	}
	if wr := c.fn(R, "middleware/edns.(*ResponseWriter).WireReady"); wr != nil {
		c.AfterEdge(R, wr, "udp capability without the client's ceiling", x5ProtoIsUDP(true), isReturnWith(1, IsConstBool(true)),
			StoreBarrier("MaxSize=w.size", maxSize, FieldIs(a.size)), OnCmp("w.size<MaxSize", FieldIs(a.size), token.LSS, FieldIs(maxSize), false))
	}
	if uo := c.fn(R, "middleware/edns.udpOverflow"); uo != nil {
		lenM := c.fobj(R, x5DnsPkg+".(*Msg).Len")
		isLimit := func(e *Expr) bool { return e.K == EParam && e.Name == "limit" }
		for _, in := range returnsWhere(uo, 0, nil) {
			e := Desc(in.(*ssa.Return).Results[0])
			key := "C06-R6|udpOverflow|return"
			if IsConstBool(false)(e) {
				ug, tr := c.unguarded(in, []Barrier{OnCmp("Len()<=limit", CallTo(lenM), token.LEQ, isLimit, true)}, uo)
				c.x5Decide(R, key, instrPos(in), !ug, "answers 'fits' only behind Len() <= limit", "udpOverflow answers false without measuring; path "+tr)
				continue
			}
			m, pol := CmpMatch(e, CallTo(lenM), token.GTR, isLimit)
			c.x5Decide(R, key, instrPos(in), m && pol, "answers m.Len() > limit", "udpOverflow does not answer with Len() > limit: "+trunc(e.String(), 120))
		}
	}
	c.Floor(R, 12)
}
