package main

// E6 lockset: forward must-analysis of held mutexes inside one function.
// A lock is identified by the canonical description of its receiver
// expression (base value + field path), so "the lock of the same base value"
// is decided structurally; go/ssa has no CSE, value identity is not used.

import (
	"fmt"
	"go/token"
	"go/types"
	"sort"
	"strings"

	"golang.org/x/tools/go/ssa"
)

type lockState map[string]bool // "W:<recv>" / "R:<recv>"

func (s lockState) clone() lockState {
	o := lockState{}
	for k := range s {
		o[k] = true
	}
	return o
}

func intersect(a, b lockState) lockState {
	o := lockState{}
	for k := range a {
		if b[k] {
			o[k] = true
		}
	}
	return o
}

func sameState(a, b lockState) bool {
	if len(a) != len(b) {
		return false
	}
	for k := range a {
		if !b[k] {
			return false
		}
	}
	return true
}

// lockOp classifies a call as a mutex operation: returns op ("Lock","RLock",
// "Unlock","RUnlock") and the canonical receiver string.
func lockOp(in ssa.Instruction) (string, string, bool) {
	cl, ok := in.(*ssa.Call)
	if !ok {
		return "", "", false
	}
	fo, _, _ := calleeObj(&cl.Call)
	if fo == nil || fo.Pkg() == nil || fo.Pkg().Path() != "sync" {
		return "", "", false
	}
	sig := fo.Type().(*types.Signature)
	if sig.Recv() == nil {
		return "", "", false
	}
	rn := deref(sig.Recv().Type()).String()
	if rn != "sync.Mutex" && rn != "sync.RWMutex" {
		return "", "", false
	}
	switch fo.Name() {
	case "Lock", "RLock", "Unlock", "RUnlock":
	default:
		return "", "", false
	}
	if len(cl.Call.Args) == 0 {
		return "", "", false
	}
	recv := Desc(cl.Call.Args[0]).String()
	recv = strings.TrimPrefix(recv, "&")
	return fo.Name(), recv, true
}

// lockStates computes, for every instruction of fn, the set of locks
// definitely held just before it. entry = locks the caller is known to hold.
func lockStates(fn *ssa.Function, entry lockState) map[ssa.Instruction]lockState {
	in := map[*ssa.BasicBlock]lockState{}
	out := map[*ssa.BasicBlock]lockState{}
	res := map[ssa.Instruction]lockState{}
	if len(fn.Blocks) == 0 {
		return res
	}
	if entry == nil {
		entry = lockState{}
	}
	work := []*ssa.BasicBlock{fn.Blocks[0]}
	in[fn.Blocks[0]] = entry
	transfer := func(b *ssa.BasicBlock, st lockState, record bool) lockState {
		st = st.clone()
		for _, ins := range b.Instrs {
			if record {
				res[ins] = st.clone()
			}
			if op, recv, ok := lockOp(ins); ok {
				switch op {
				case "Lock":
					st["W:"+recv] = true
				case "RLock":
					st["R:"+recv] = true
				case "Unlock":
					delete(st, "W:"+recv)
				case "RUnlock":
					delete(st, "R:"+recv)
				}
			}
		}
		return st
	}
	for iter := 0; len(work) > 0 && iter < 100000; iter++ {
		b := work[0]
		work = work[1:]
		o := transfer(b, in[b], false)
		if prev, ok := out[b]; ok && sameState(prev, o) {
			continue
		}
		out[b] = o
		for _, s := range b.Succs {
			if cur, ok := in[s]; !ok {
				in[s] = o.clone()
				work = append(work, s)
			} else {
				n := intersect(cur, o)
				if !sameState(n, cur) {
					in[s] = n
					work = append(work, s)
				} else if _, done := out[s]; !done {
					work = append(work, s)
				}
			}
		}
	}
	for _, b := range fn.Blocks {
		if st, ok := in[b]; ok {
			transfer(b, st, true)
		}
	}
	return res
}

// Access describes one guarded access found by a rule.
type Access struct {
	In    ssa.Instruction
	Lock  string // canonical receiver string of the mutex that must be held
	Write bool
	What  string
}

// LockHeld (E6): every access must happen with its lock held (write lock for
// writes; read or write lock for reads).
func (c *Ctx) LockHeld(rule string, fn *ssa.Function, entry lockState, accesses []Access) {
	st := lockStates(fn, entry)
	for _, a := range accesses {
		key := fmt.Sprintf("%s|%s|%s", rule, fnKey(fn), a.What)
		held := st[a.In]
		okW := held["W:"+a.Lock]
		okR := held["R:"+a.Lock]
		var hs []string
		for k := range held {
			hs = append(hs, k)
		}
		sort.Strings(hs)
		switch {
		case a.Write && okW, !a.Write && (okW || okR):
			c.ok(rule, key, instrPos(a.In), fmt.Sprintf("%s under %s", a.What, a.Lock))
		case a.Write && okR:
			c.violation(rule, key, instrPos(a.In), fmt.Sprintf("%s is a mutation but only the read lock of %s is held", a.What, a.Lock))
		default:
			c.violation(rule, key, instrPos(a.In), fmt.Sprintf("%s without holding %s (held: %v)", a.What, a.Lock, hs))
		}
	}
}

// NoNestedLock: no Lock/RLock of a mutex whose receiver matches class while
// another lock of that class is held.
func (c *Ctx) NoNestedLock(rule string, fn *ssa.Function, class func(recv string) bool) int {
	n := 0
	for _, f := range WithAnons(fn) {
		st := lockStates(f, nil)
		for _, b := range f.Blocks {
			for _, in := range b.Instrs {
				op, recv, ok := lockOp(in)
				if !ok || (op != "Lock" && op != "RLock") || !class(recv) {
					continue
				}
				n++
				key := fmt.Sprintf("%s|%s|nested", rule, fnKey(fn))
				var held []string
				for k := range st[in] {
					if class(k[2:]) {
						held = append(held, k)
					}
				}
				if len(held) > 0 {
					sort.Strings(held)
					c.violation(rule, key, instrPos(in), fmt.Sprintf("acquires %s while holding %v", recv, held))
				} else {
					c.ok(rule, key, instrPos(in), fmt.Sprintf("acquires %s with no lock of the class held", recv))
				}
			}
		}
	}
	return n
}

// ---------------------------------------------------------------------------
// Guarded fields: every access to field F of a struct happens with the
// struct's mutex field M (same base value) held.

type guardSpec struct {
	Rule   string
	Pkg    string            // module-relative package whose functions are scanned
	Fields []*types.Var      // guarded fields
	Mutex  string            // name of the mutex field (or embedded type name) in the same struct
	Exempt map[string]string // fnKey → reason (e.g. constructors)
	ReadOK map[string]bool   // field names for which reads need no lock (immutable refs) – unused by default
}

// entryLocks computes the locks every in-module caller holds when calling fn,
// translated to fn's receiver/parameter names (only direct parameter passing
// of the base value is translated).
func (c *Ctx) entryLocks(fn *ssa.Function, depth int, memo map[*ssa.Function]lockState) lockState {
	if st, ok := memo[fn]; ok {
		return st
	}
	memo[fn] = lockState{} // cycle guard: assume nothing
	fo := funcObjOf(fn)
	if fo == nil || depth > 4 {
		return lockState{}
	}
	sites := c.CallSites(fo)
	if len(sites) == 0 {
		return lockState{}
	}
	var acc lockState
	first := true
	for _, s := range sites {
		cl, ok := s.Instr.(*ssa.Call)
		if !ok {
			// go/defer/ref: the lock state at execution time is unknown
			memo[fn] = lockState{}
			return lockState{}
		}
		callerStates := lockStates(s.Fn, c.entryLocks(s.Fn, depth+1, memo))
		held := callerStates[s.Instr]
		tr := lockState{}
		for i, a := range cl.Call.Args {
			if i >= len(fn.Params) {
				break
			}
			as := Desc(a).String()
			pn := fn.Params[i].Name()
			for k := range held {
				mode, recv := k[:2], k[2:]
				if recv == as || strings.HasPrefix(recv, as+".") {
					tr[mode+pn+recv[len(as):]] = true
				}
			}
		}
		if first {
			acc = tr
			first = false
		} else {
			acc = intersect(acc, tr)
		}
	}
	if acc == nil {
		acc = lockState{}
	}
	memo[fn] = acc
	return acc
}

// GuardedFields runs the guarded-field rule over all functions of the package.
func (c *Ctx) GuardedFields(gs guardSpec) int {
	n := 0
	memo := map[*ssa.Function]lockState{}
	isGuarded := func(v *types.Var) bool {
		for _, f := range gs.Fields {
			if f == v {
				return true
			}
		}
		return false
	}
	for _, fn := range c.P.FuncsInPkg(gs.Pkg) {
		if _, ex := gs.Exempt[fnKey(TopLevel(fn))]; ex {
			continue
		}
		var acc []Access
		for _, b := range fn.Blocks {
			for _, in := range b.Instrs {
				// stores to the field
				if st, ok := in.(*ssa.Store); ok {
					if fa, ok := st.Addr.(*ssa.FieldAddr); ok {
						s := deref(fa.X.Type()).Underlying().(*types.Struct)
						if isGuarded(s.Field(fa.Field).Origin()) {
							base := Desc(fa.X)
							if isFreshLocal(base) {
								continue
							}
							acc = append(acc, Access{In: in, Lock: base.String() + "." + gs.Mutex, Write: true, What: "store " + s.Field(fa.Field).Name()})
						}
					}
					continue
				}
				// loads of the field: classify by the use of the loaded value
				ld, ok := in.(*ssa.UnOp)
				if !ok || ld.Op != token.MUL {
					continue
				}
				fa, ok := ld.X.(*ssa.FieldAddr)
				if !ok {
					continue
				}
				s := deref(fa.X.Type()).Underlying().(*types.Struct)
				fv := s.Field(fa.Field).Origin()
				if !isGuarded(fv) {
					continue
				}
				base := Desc(fa.X)
				if isFreshLocal(base) {
					continue
				}
				lock := base.String() + "." + gs.Mutex
				refs := ld.Referrers()
				if refs == nil || len(*refs) == 0 {
					acc = append(acc, Access{In: in, Lock: lock, Write: false, What: "read " + fv.Name()})
					continue
				}
				for _, r := range *refs {
					w := false
					what := "read " + fv.Name()
					switch x := r.(type) {
					case *ssa.MapUpdate:
						if x.Map == ld {
							w = true
							what = "map write " + fv.Name()
						}
					case *ssa.Call:
						if bi, ok := x.Call.Value.(*ssa.Builtin); ok && (bi.Name() == "delete" || bi.Name() == "clear") {
							w = true
							what = bi.Name() + " " + fv.Name()
						}
					case *ssa.DebugRef:
						continue
					}
					acc = append(acc, Access{In: r, Lock: lock, Write: w, What: what})
				}
			}
		}
		if len(acc) == 0 {
			continue
		}
		n += len(acc)
		var entry lockState
		hasLockOps := false
		for _, b := range fn.Blocks {
			for _, in := range b.Instrs {
				if _, _, ok := lockOp(in); ok {
					hasLockOps = true
				}
			}
		}
		if !hasLockOps || strings.HasSuffix(TopLevel(fn).Name(), "Locked") {
			if fn.Parent() != nil {
				// closure: facts at its (single) creation site
				entry = c.closureEntryLocks(fn, memo)
			} else {
				entry = c.entryLocks(fn, 0, memo)
			}
		}
		c.LockHeld(gs.Rule, fn, entry, acc)
	}
	return n
}

// closureEntryLocks: locks held where the closure is created (used for
// closures that are invoked synchronously by the creator, e.g. sort callbacks).
func (c *Ctx) closureEntryLocks(fn *ssa.Function, memo map[*ssa.Function]lockState) lockState {
	sites := closureSites(fn)
	if len(sites) != 1 {
		return lockState{}
	}
	par := fn.Parent()
	var pe lockState
	if par.Parent() != nil {
		pe = c.closureEntryLocks(par, memo)
	} else {
		pe = c.entryLocks(par, 0, memo)
	}
	// a closure started with `go` or deferred does not inherit
	if refs := sites[0].(*ssa.MakeClosure).Referrers(); refs != nil {
		for _, r := range *refs {
			switch r.(type) {
			case *ssa.Go, *ssa.Defer:
				return lockState{}
			}
		}
	}
	st := lockStates(par, pe)
	return st[sites[0]]
}

func isFreshLocal(e *Expr) bool {
	e = strip(e)
	if e == nil {
		return false
	}
	if e.K == EAlloc && len(e.Args) == 0 {
		if a, ok := e.V.(*ssa.Alloc); ok {
			return a.Comment == "complit" || a.Comment == "new" || strings.HasPrefix(a.Comment, "new")
		}
	}
	return false
}
