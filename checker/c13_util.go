package main

// Helpers private to the C13 rules (RFC 9520 failure cache).

import (
	"fmt"
	"go/token"
	"go/types"
	"strings"

	"golang.org/x/tools/go/ssa"
)

func c13BarNames(bars []Barrier) string {
	var bn []string
	for _, b := range bars {
		bn = append(bn, b.Name)
	}
	return strings.Join(bn, " | ")
}

// c13Guarded: each target is unreachable from the entry of top (closures
// inherit the facts of their creation site) without crossing one of bars.
func (c *Ctx) c13Guarded(rule string, top *ssa.Function, what string, targets []ssa.Instruction, bars ...Barrier) {
	if len(targets) == 0 {
		c.unresolved(rule, fnKey(top)+"|"+what, "no target site found (rule would pass vacuously)")
		return
	}
	key := fmt.Sprintf("%s|%s|%s", rule, fnKey(top), what)
	for _, t := range targets {
		if ug, tr := c.unguarded(t, bars, top); ug {
			c.violation(rule, key, instrPos(t), fmt.Sprintf("%s: reachable without crossing {%s}; path %s", what, c13BarNames(bars), tr))
		} else {
			c.ok(rule, key, instrPos(t), fmt.Sprintf("%s: behind {%s}", what, c13BarNames(bars)))
		}
	}
}

// c13GuardedVal: c13Guarded for one target whose guard names the value v that the
// target consumes (mk builds the barriers for a given value).  A target that sits
// in an unexported helper of top and is reachable from the helper's entry without
// the guard moves the obligation to every call site of the helper in top's scope,
// with v — which must then be a parameter of the helper — read as that call's
// argument.  Same key and wording as c13Guarded.
func (c *Ctx) c13GuardedVal(rule string, top *ssa.Function, what string, t ssa.Instruction, v ssa.Value, mk func(ssa.Value) []Barrier) {
	key := fmt.Sprintf("%s|%s|%s", rule, fnKey(top), what)
	bars := mk(v)
	if ug, tr := c.c13UnguardedVal(t, v, mk, top, 0); ug {
		c.violation(rule, key, instrPos(t), fmt.Sprintf("%s: reachable without crossing {%s}; path %s", what, c13BarNames(bars), tr))
	} else {
		c.ok(rule, key, instrPos(t), fmt.Sprintf("%s: behind {%s}", what, c13BarNames(bars)))
	}
}

func (c *Ctx) c13UnguardedVal(t ssa.Instruction, v ssa.Value, mk func(ssa.Value) []Barrier, top *ssa.Function, depth int) (bool, string) {
	bars := mk(v)
	h := TopLevel(t.Parent())
	if h == TopLevel(top) || depth > 2 {
		return c.unguarded(t, bars, top)
	}
	ug, tr := c.unguarded(t, bars, h)
	if !ug {
		return false, "" // guarded inside the helper itself
	}
	idx := -1
	if p, ok := v.(*ssa.Parameter); ok && p.Parent() == h {
		for i, q := range h.Params {
			if q == p {
				idx = i
			}
		}
	}
	var sites []*ssa.Call
	for _, g := range scopeFuncs(top) {
		if TopLevel(g) == h {
			continue
		}
		for _, b := range g.Blocks {
			for _, in := range b.Instrs {
				if cl, ok := in.(*ssa.Call); ok && localHelper(g, &cl.Call) == h {
					sites = append(sites, cl)
				}
			}
		}
	}
	if idx < 0 || len(sites) == 0 {
		return true, tr
	}
	for _, s := range sites {
		if idx >= len(s.Call.Args) {
			return true, tr
		}
		if ug2, t2 := c.c13UnguardedVal(s, s.Call.Args[idx], mk, top, depth+1); ug2 {
			return true, t2 + "⇒helper:" + tr
		}
	}
	return false, ""
}

// c13AcquireThroughHelpers: the acquire predicate for Paired seen from the anchored
// function: a direct acquire, or a call of an unexported same-package helper in
// which an acquire can reach the helper's return without crossing a release (the
// obligation to release then falls to the caller).  An acquire inside a closure of
// a helper is not judged and counts as leaking.
func c13AcquireThroughHelpers(acquire, release func(ssa.Instruction) bool) func(ssa.Instruction) bool {
	bars := []Barrier{{Name: "release", Instr: func(in ssa.Instruction) bool {
		if _, isDefer := in.(*ssa.Defer); isDefer {
			return false
		}
		return release(in)
	}}, deferBarrier("release", release)}
	memo := map[*ssa.Function]int{}
	var pred func(in ssa.Instruction, depth int) bool
	var leaks func(h *ssa.Function, depth int) bool
	pred = func(in ssa.Instruction, depth int) bool {
		if acquire(in) {
			return true
		}
		cl, ok := in.(*ssa.Call)
		if !ok || depth >= 3 {
			return false
		}
		h := localHelper(in.Parent(), &cl.Call)
		return h != nil && leaks(h, depth+1)
	}
	leaks = func(h *ssa.Function, depth int) bool {
		switch memo[h] {
		case 1:
			return true
		case 2, 3:
			return false
		}
		memo[h] = 3 // in progress
		res := false
		for _, f := range WithAnons(h) {
			for _, b := range f.Blocks {
				for _, in := range b.Instrs {
					if res || !pred(in, depth) {
						continue
					}
					if f != h {
						res = true
						continue
					}
					r := reach([]Point{pointAfter(in)}, bars, nil)
					for _, t := range r.order {
						if isExit(t) {
							res = true
							break
						}
					}
				}
			}
		}
		if res {
			memo[h] = 1
		} else {
			memo[h] = 2
		}
		return res
	}
	return func(in ssa.Instruction) bool { return pred(in, 0) }
}

// c13Invokes: instructions of fn (+closures) that call method `name`, either
// statically on recv type typeName or through an interface.
func c13MethodCalls(fn *ssa.Function, names ...string) []ssa.Instruction {
	return instrsWhere(fn, func(in ssa.Instruction) bool {
		cc := callCommon(in)
		if cc == nil {
			return false
		}
		n := ""
		if cc.IsInvoke() {
			n = cc.Method.Name()
		} else if fo, _, _ := calleeObj(cc); fo != nil {
			if sig, _ := fo.Type().(*types.Signature); sig != nil && sig.Recv() != nil {
				n = fo.Name()
			}
		}
		for _, x := range names {
			if n == x {
				return true
			}
		}
		return false
	})
}

// c13ErrorsIs: `errors.Is(<x>, <global sentinel>)` call description.
func c13ErrorsIs(errorsIs *types.Func, sentinel types.Object, x Pat) Pat {
	return func(e *Expr) bool {
		e = strip(e)
		if e == nil || e.K != ECall || !sameFunc(e.Fn, errorsIs) || len(e.Args) != 2 {
			return false
		}
		if !GlobalIs(sentinel)(e.Args[1]) {
			return false
		}
		return x == nil || x(e.Args[0])
	}
}

// c13InPkg: fn belongs to the package with full import path.
func c13InPkg(fn *ssa.Function, full string) bool {
	pk := fnPkg(fn)
	return pk != nil && pk.Path() == full
}

// c13FieldLoads: every load instruction of field fv in the module.
func c13FieldLoads(fns []*ssa.Function, fv *types.Var) []ssa.Instruction {
	var out []ssa.Instruction
	for _, fn := range fns {
		for _, b := range fn.Blocks {
			for _, in := range b.Instrs {
				switch x := in.(type) {
				case *ssa.UnOp:
					if x.Op != token.MUL {
						continue
					}
					if fa, ok := x.X.(*ssa.FieldAddr); ok {
						if s, ok := deref(fa.X.Type()).Underlying().(*types.Struct); ok && s.Field(fa.Field).Origin() == fv {
							out = append(out, in)
						}
					}
				case *ssa.Field:
					if s, ok := x.X.Type().Underlying().(*types.Struct); ok && s.Field(x.Field).Origin() == fv {
						out = append(out, in)
					}
				}
			}
		}
	}
	return out
}

// c13PhiTerminals walks a phi web and returns the non-phi values feeding it.
func c13PhiTerminals(v ssa.Value) []ssa.Value {
	var out []ssa.Value
	seen := map[ssa.Value]bool{}
	var walk func(v ssa.Value)
	walk = func(v ssa.Value) {
		if seen[v] {
			return
		}
		seen[v] = true
		if p, ok := v.(*ssa.Phi); ok {
			for _, e := range p.Edges {
				walk(e)
			}
			return
		}
		out = append(out, v)
	}
	walk(v)
	return out
}

// c13PhiWeb: the phis reachable from v through phi edges (incl. v).
func c13PhiWeb(v ssa.Value) map[ssa.Value]bool {
	seen := map[ssa.Value]bool{}
	var walk func(v ssa.Value)
	walk = func(v ssa.Value) {
		if seen[v] {
			return
		}
		if p, ok := v.(*ssa.Phi); ok {
			seen[v] = true
			for _, e := range p.Edges {
				walk(e)
			}
		}
	}
	walk(v)
	return seen
}

// c13FromNoReach: no target is reachable from right after a `from` instruction
// without crossing one of bars (one obligation per from-site).
func (c *Ctx) c13FromNoReach(rule string, fn *ssa.Function, what string, from []ssa.Instruction, target func(ssa.Instruction) bool, bars ...Barrier) {
	if len(from) == 0 {
		c.unresolved(rule, fnKey(fn)+"|"+what, "no start site found (rule would pass vacuously)")
		return
	}
	key := fmt.Sprintf("%s|%s|%s", rule, fnKey(fn), what)
	for _, f := range from {
		r := reach([]Point{pointAfter(f)}, bars, nil)
		bad := false
		for _, t := range r.order {
			if target(t) {
				bad = true
				c.violation(rule, key, instrPos(t), fmt.Sprintf("%s: reachable from %s without crossing {%s}; path %s", what, c.P.pos(instrPos(f)), c13BarNames(bars), c.trail(r, t)))
				break
			}
		}
		if !bad {
			c.ok(rule, key, instrPos(f), fmt.Sprintf("%s: nothing forbidden reachable after %s without {%s}", what, c.P.pos(instrPos(f)), c13BarNames(bars)))
		}
	}
}

// c13ConstBoolFlag: p is a boolean phi web whose terminals are all boolean
// constants and whose every `true` edge enters from a block that is only
// reachable across the edge `setWhen` (e.g. "FailureRetryKey ok").
func (c *Ctx) c13ConstBoolFlag(v ssa.Value, setWhen Barrier, top *ssa.Function) bool {
	if _, ok := v.(*ssa.Phi); !ok {
		return false
	}
	for _, t := range c13PhiTerminals(v) {
		k, ok := t.(*ssa.Const)
		if !ok || k.Value == nil || k.Value.Kind().String() != "Bool" {
			return false
		}
	}
	for pv := range c13PhiWeb(v) {
		p := pv.(*ssa.Phi)
		for i, e := range p.Edges {
			k, ok := e.(*ssa.Const)
			if !ok || k.Value == nil || k.Value.ExactString() != "true" {
				continue
			}
			pred := p.Block().Preds[i]
			if len(pred.Instrs) == 0 {
				return false
			}
			if ug, _ := c.unguarded(pred.Instrs[0], []Barrier{setWhen}, top); ug {
				return false
			}
		}
	}
	return true
}

// c13OnlyReachedFrom: fn is a same-package function whose every in-module use
// is a plain call from root or from functions that are themselves only reached
// from root (a helper extracted from root).
func (c *Ctx) c13OnlyReachedFrom(fn, root *ssa.Function, memo map[*ssa.Function]bool, depth int) bool {
	if fn == root {
		return true
	}
	if v, ok := memo[fn]; ok {
		return v
	}
	memo[fn] = false
	fo := funcObjOf(fn)
	if fo == nil || depth > 3 || fnPkg(fn) != fnPkg(root) {
		return false
	}
	sites := c.CallSites(fo)
	if len(sites) == 0 {
		return false
	}
	for _, s := range sites {
		if s.Kind != "call" {
			return false
		}
		if !c.c13OnlyReachedFrom(TopLevel(s.Fn), root, memo, depth+1) {
			return false
		}
	}
	memo[fn] = true
	return true
}

// c13OnCmp is OnCmp made phi-aware (the comparison may reach the branch through
// a boolean local): see c09CmpBarrier.
func c13OnCmp(name string, lhs Pat, op token.Token, rhs Pat, holds bool) Barrier {
	return c09CmpBarrier(name, holds, c09Cmp{lhs, op, rhs})
}
