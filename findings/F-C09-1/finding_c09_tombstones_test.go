package resolver

import (
	"os"
	"path/filepath"
	"runtime"
	"syscall"
	"testing"
	"time"

	"github.com/miekg/dns"
	"github.com/semihalev/sdns/config"
	"github.com/semihalev/sdns/middleware/resolver/dnssec"
)

// TestFindingC09UnreadableTombstonesFailClosed — candidate F-C09-1.
//
// Property: if the revocation store (trust-anchor-tombstones.db) is
// unreadable, validation fails closed instead of trusting a key whose
// revocation can no longer be checked.
//
// Scenario (every subtest):
//
//   - two root KSKs, K and K2, are listed in cfg.RootKeys;
//   - K was revoked earlier: its material fingerprint is in a real
//     tombstone file written with the package's own writeTombstones, and
//     the main state file (written with writeToTAFile) holds only K2;
//   - the loopback root publishes {K2} signed by K2 (K is long gone);
//   - the resolver restarts (NewResolver seeds r.rootKeys from config)
//     and runs AutoTA.
//
// The "readable" subtest is the control: with the tombstone file readable
// K is dropped and the file is preserved. The other subtests make the
// tombstone path unreadable with an errno that is neither ENOENT nor a gob
// decode failure and then assert the same two things.
func TestFindingC09UnreadableTombstonesFailClosed(t *testing.T) {
	type fixture struct {
		dir       string
		tombPath  string
		statePath string
		k, k2     hermeticKey
		cfg       *config.Config
	}

	build := func(t *testing.T) *fixture {
		t.Helper()

		dir, err := os.MkdirTemp("", "sdns-finding-c09-")
		if err != nil {
			t.Fatalf("temp dir: %v", err)
		}
		t.Cleanup(func() { _ = os.RemoveAll(dir) })

		f := &fixture{
			dir:       dir,
			tombPath:  filepath.Join(dir, tombstoneFile),
			statePath: filepath.Join(dir, stateFile),
			k:         newHermeticKey(t, "."),
			k2:        newHermeticKey(t, "."),
		}

		// The tombstone the resolver itself would have written when it saw
		// K with the REVOKE bit: keyed by material fingerprint, carrying the
		// revoked form of the key.
		revoked := dns.Copy(f.k.key).(*dns.DNSKEY)
		revoked.Flags |= DNSKEYFlagRevoke
		if err := writeTombstones(f.tombPath, Tombstones{
			dnskeyMaterialFP(f.k.key): {DNSKey: revoked, FirstSeen: time.Now().Add(-48 * time.Hour)},
		}); err != nil {
			t.Fatalf("seed tombstones: %v", err)
		}
		if err := writeToTAFile(f.statePath, TrustAnchors{
			dnssec.KeyTag(f.k2.key): {DNSKey: f.k2.key, State: StateValid, FirstSeen: time.Now().Add(-48 * time.Hour)},
		}); err != nil {
			t.Fatalf("seed state: %v", err)
		}

		root := startHermeticServer(t, "root")
		root.serve(".", dns.TypeDNSKEY, f.k2.key, f.k2.sign(t, []dns.RR{f.k2.key}))

		cfg := new(config.Config)
		cfg.RootServers = []string{root.addr}
		// K is still in the operator's configuration — the stale-config case
		// the tombstone store exists for.
		cfg.RootKeys = []string{f.k.key.String(), f.k2.key.String()}
		cfg.Maxdepth = 30
		cfg.Expire = 600
		cfg.CacheSize = 1024
		cfg.Timeout.Duration = 2 * time.Second
		cfg.Directory = dir
		// Leave DNSSEC off so the resolver's background run() never calls
		// AutoTA on its own; the test calls it exactly once, synchronously.
		// AutoTA itself does not look at the flag (its query is CD=1 and it
		// validates against the candidate set explicitly).
		cfg.DNSSEC = ""
		f.cfg = cfg
		return f
	}

	trusts := func(r *Resolver, k *dns.DNSKEY) bool {
		r.RLock()
		defer r.RUnlock()
		for _, rr := range r.rootKeys {
			if dk, ok := rr.(*dns.DNSKEY); ok && dnskeyMaterialFP(dk) == dnskeyMaterialFP(k) {
				return true
			}
		}
		return false
	}

	check := func(t *testing.T, f *fixture, r *Resolver) {
		t.Helper()

		// (a) the revoked key must not be live trust material.
		if trusts(r, f.k.key) {
			t.Errorf("revoked trust anchor (keytag %d) is back in r.rootKeys after AutoTA ran with an unreadable tombstone store; want it absent (fail closed)",
				dnssec.KeyTag(f.k.key))
		}

		// (b) the durable revocation record must survive the run.
		tombs, err := readTombstones(f.tombPath)
		if err != nil {
			t.Fatalf("tombstone file unreadable after restore: %v", err)
		}
		if _, ok := tombs[dnskeyMaterialFP(f.k.key)]; !ok {
			t.Errorf("tombstone for revoked key (keytag %d) is gone from %s after AutoTA (file now holds %d entries); revocation lost permanently",
				dnssec.KeyTag(f.k.key), f.tombPath, len(tombs))
		}
	}

	t.Run("readable-control", func(t *testing.T) {
		f := build(t)
		r := NewResolver(f.cfg)
		if !trusts(r, f.k.key) {
			t.Fatal("fixture: NewResolver should seed r.rootKeys with K from config")
		}
		r.AutoTA()
		if !trusts(r, f.k2.key) {
			t.Fatal("fixture: K2 should be trusted after a successful refresh")
		}
		check(t, f, r)
	})

	// EACCES: the tombstone file is mode 000 and the process is not
	// privileged — e.g. restored from backup by root with the wrong owner.
	// The directory is still writable, so the end-of-run rename succeeds.
	t.Run("eacces-chmod-000", func(t *testing.T) {
		f := build(t)

		const nobody = 65534
		for _, p := range []string{f.dir, f.tombPath, f.statePath} {
			if err := os.Chown(p, nobody, nobody); err != nil {
				t.Skipf("chown %s: %v", p, err)
			}
		}
		if err := os.Chmod(f.tombPath, 0); err != nil {
			t.Fatalf("chmod: %v", err)
		}

		r := NewResolver(f.cfg)

		if os.Geteuid() == 0 {
			// Root ignores file modes. Drop the filesystem uid of this one
			// thread for the duration of AutoTA; every file operation in
			// AutoTA happens synchronously on the calling goroutine.
			runtime.LockOSThread()
			defer runtime.UnlockOSThread()
			_ = syscall.Setfsgid(nobody)
			_ = syscall.Setfsuid(nobody)
			restored := false
			restore := func() {
				if !restored {
					_ = syscall.Setfsuid(0)
					_ = syscall.Setfsgid(0)
					restored = true
				}
			}
			defer restore()
			if fh, err := os.Open(f.tombPath); err == nil {
				_ = fh.Close()
				restore()
				t.Skip("cannot drop filesystem privileges; mode 000 file is still readable")
			}
			if _, err := readTombstones(f.tombPath); err == nil || !os.IsPermission(err) {
				restore()
				t.Fatalf("fixture: want EACCES from readTombstones, got %v", err)
			}
			r.AutoTA()
			restore()
		} else {
			r.AutoTA()
		}

		// Restore readability. If AutoTA replaced the file this is a no-op
		// on a fresh 0600 file.
		_ = os.Chmod(f.tombPath, 0o600)
		// (Whether the other anchor K2 stays trusted is not part of the
		// property: failing closed may legitimately clear the whole set.)
		check(t, f, r)
	})

	// ELOOP: the tombstone path resolves through a symlink loop. Works the
	// same for a privileged process. The real file sits next to it and is
	// put back afterwards if the path is still a symlink.
	t.Run("eloop-symlink", func(t *testing.T) {
		f := build(t)

		realPath := filepath.Join(f.dir, "tombstones.real")
		if err := os.Rename(f.tombPath, realPath); err != nil {
			t.Fatalf("rename: %v", err)
		}
		if err := os.Symlink(tombstoneFile, f.tombPath); err != nil {
			t.Skipf("symlink: %v", err)
		}
		if _, err := readTombstones(f.tombPath); err == nil || os.IsNotExist(err) {
			t.Fatalf("fixture: want ELOOP from readTombstones, got %v", err)
		}

		r := NewResolver(f.cfg)
		r.AutoTA()

		// Restore readability: if the path is still the looping symlink,
		// point it back at the real file. If AutoTA renamed a regular file
		// over it, that regular file is what the next start will read.
		if fi, err := os.Lstat(f.tombPath); err == nil && fi.Mode()&os.ModeSymlink != 0 {
			_ = os.Remove(f.tombPath)
			if err := os.Rename(realPath, f.tombPath); err != nil {
				t.Fatalf("restore: %v", err)
			}
		}
		check(t, f, r)
	})
}
