package dns64

import (
	"context"
	"testing"
	"time"

	"github.com/miekg/dns"
	"github.com/semihalev/sdns/internal/mock"
	"github.com/semihalev/sdns/middleware"
	cachemw "github.com/semihalev/sdns/middleware/cache"
)

// A synthesised AAAA is composed from two pieces: the (negative) AAAA answer
// and the A answer. RFC 6147 §5.1.7 and the cache's own rule agree that it may
// live no longer than the shorter of the two. When the negative AAAA answer is
// served from the cache in the last second of its life, the SOA it carries
// shows TTL 0 (the cache truncates the remaining time to whole seconds) — and
// negativeAAAATTL reports 0 for "no SOA at all", so the synthesis falls back
// to the 600 s no-SOA ceiling and hands out the A record's full TTL.
func TestHuntC04_SynthesisFromNegativeAnswerInItsLastSecond(t *testing.T) {
	cfg := baseConfig()
	cfg.CacheSize = 1024
	cfg.Expire = 600
	d := New(cfg)
	c := cachemw.New(cfg)
	defer c.Stop()

	const qname = "v4only.example.org."
	aQueries := 0
	d.queryer = queryerFunc(func(_ context.Context, req *dns.Msg) (*dns.Msg, error) {
		aQueries++
		return aRespMsg(qname, 300, "192.0.2.33"), nil
	})

	// The negative AAAA answer, admitted with 0.9 s left of the delegation
	// lease it was learned through: every hit on it shows TTL 0.
	store, ok := c.Store().(*cachemw.Store)
	if !ok {
		t.Fatal("cache StoreProvider did not return *cache.Store")
	}
	store.SetFromResponse(noDataMsg(qname, 300), false, time.Now().Add(900*time.Millisecond))

	downstreamCalls := 0
	downstream := middleware.HandlerFunc(func(_ context.Context, ch *middleware.Chain) {
		downstreamCalls++
		ch.CancelWithRcode(dns.RcodeServerFailure, false)
	})

	ch := middleware.NewChain([]middleware.Handler{d, c, downstream})
	w := mock.NewWriter("udp", "203.0.113.5:53000")
	req := new(dns.Msg)
	req.SetQuestion(qname, dns.TypeAAAA)
	req.SetEdns0(4096, false)
	ch.Reset(w, req)
	ch.Next(context.Background())

	if downstreamCalls != 0 {
		t.Fatalf("the seeded negative answer was not a cache hit (downstream calls = %d)", downstreamCalls)
	}
	if aQueries != 1 {
		t.Fatalf("A lookups = %d, want 1", aQueries)
	}
	resp := w.Msg()
	if resp == nil || resp.Rcode != dns.RcodeSuccess {
		t.Fatalf("unexpected response: %v", resp)
	}
	var synthesised *dns.AAAA
	for _, rr := range resp.Answer {
		if aaaa, ok := rr.(*dns.AAAA); ok {
			synthesised = aaaa
		}
	}
	if synthesised == nil {
		t.Fatalf("no synthesised AAAA in %v", resp.Answer)
	}
	// The negative piece had under a second to live; nothing composed from it
	// may claim more than that.
	if synthesised.Hdr.Ttl > 1 {
		t.Errorf("synthesised AAAA TTL = %d s, but the negative AAAA answer it was composed from had < 1 s left",
			synthesised.Hdr.Ttl)
	}
}

// The same arithmetic without a cache in the picture: an upstream may itself
// send the SOA with TTL 0, and min(A TTL, 0) is 0, not the A TTL.
func TestHuntC04_SynthesisHonoursZeroSOATTL(t *testing.T) {
	d := New(baseConfig())
	d.queryer = &stubQueryer{resp: aRespMsg("foo.example.org.", 300, "192.0.2.33")}

	nodata := noDataMsg("foo.example.org.", 300)
	nodata.Ns[0].Header().Ttl = 0

	ch, mw := makeChain(t, d, &stubAnswerer{msg: nodata}, "203.0.113.5:53", "foo.example.org.", dns.TypeAAAA)
	d.ServeDNS(context.Background(), ch)
	aaaa, ok := mw.Msg().Answer[0].(*dns.AAAA)
	if !ok {
		t.Fatalf("no synthesised AAAA in %v", mw.Msg().Answer)
	}
	if aaaa.Hdr.Ttl != 0 {
		t.Errorf("synthesised AAAA TTL = %d, want 0 = min(A TTL 300, negative TTL 0)", aaaa.Hdr.Ttl)
	}
}

type queryerFunc func(context.Context, *dns.Msg) (*dns.Msg, error)

func (f queryerFunc) Query(ctx context.Context, req *dns.Msg) (*dns.Msg, error) { return f(ctx, req) }
