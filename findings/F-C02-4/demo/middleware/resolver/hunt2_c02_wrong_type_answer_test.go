package resolver

import (
	"testing"

	"github.com/miekg/dns"
)

// www.wtype.test. holds both an A and an AAAA RRset, each genuinely signed.
// A forger on the path answers the AAAA question with the zone's own A RRset
// and its genuine RRSIG: every signature in the reply is good, but nothing in
// it is of the type that was asked, nor an alias. The reply carries no
// NSEC/NSEC3, so nothing proves that www.wtype.test. has no AAAA — it has one.
//
// A validating resolver may not hand that to the client as the authenticated
// outcome of the AAAA question: a reply with no RRset of the asked type (and
// no CNAME/DNAME) at the asked name says "this type is not here", and under a
// signed zone that statement needs its denial proof like every other NODATA.
func TestHunt2C02WrongTypeAnswerIsNotAnAuthenticatedNODATA(t *testing.T) {
	net := newHermeticNet(t)
	zone := net.Delegate("wtype.test.")

	a := mustRR(t, "www.wtype.test. 300 IN A 192.0.2.10")
	aaaa := mustRR(t, "www.wtype.test. 300 IN AAAA 2001:db8::10")
	zone.Serve(a)
	zone.Serve(aaaa)

	// The forged reply to "www.wtype.test. AAAA": the genuine A RRset and its
	// genuine signature, in the answer section, nothing else.
	zone.server.mu.Lock()
	forged := append([]dns.RR{}, zone.server.records[hermeticRRSetKey{"www.wtype.test.", dns.TypeA}]...)
	zone.server.records[hermeticRRSetKey{"www.wtype.test.", dns.TypeAAAA}] = forged
	zone.server.mu.Unlock()

	resp := hermeticAsk(t, net.Handler(), "www.wtype.test.", dns.TypeAAAA)

	if zone.asked("www.wtype.test.", dns.TypeAAAA) == 0 {
		t.Fatal("the AAAA question never reached the zone; the fixture did not exercise the path")
	}

	hasAAAA := false
	for _, rr := range resp.Answer {
		if rr.Header().Rrtype == dns.TypeAAAA {
			hasAAAA = true
		}
	}
	if hasAAAA {
		t.Fatal("fixture error: the forged reply was not the one used")
	}

	// From here on the reply tells the client that www.wtype.test. has no
	// AAAA. That is only acceptable as a failure (SERVFAIL), never as a
	// successful, authenticated result.
	if resp.Rcode == dns.RcodeSuccess && resp.AuthenticatedData {
		t.Fatalf("AAAA question answered NOERROR with AD=1 and no AAAA, CNAME or denial proof:\n%s", resp)
	}
	if resp.Rcode == dns.RcodeSuccess {
		t.Fatalf("AAAA question answered NOERROR without an AAAA, alias or denial proof under a signed zone:\n%s", resp)
	}
}
