package resolver

import (
	"strings"
	"testing"

	"github.com/miekg/dns"
)

// TestHuntMinimisedNODATAIsNotTheAnswer: with QNAME minimisation on (the
// shipped default, level 5) the resolver asks par.test.'s servers for
// `www.par.test. TXT` on its way to `_dmarc.www.par.test. TXT`. www.par.test.
// exists and has no TXT, so the honest reply is NODATA: SOA + the NSEC of
// www.par.test. — and the resolver, seeing the SOA, goes on to ask the longer
// name. Strip the SOA (and its RRSIG) from that reply and what is left is
// still a perfectly valid, signed NODATA proof — for www.par.test. TXT. It
// proves nothing about _dmarc.www.par.test., which exists and has a TXT.
func TestHuntMinimisedNODATAIsNotTheAnswer(t *testing.T) {
	n := newHermeticNet(t)
	zone := n.Delegate("par.test.")
	zone.Serve(mustRR(t, "www.par.test. 300 IN A 192.0.2.10"))
	zone.Serve(mustRR(t, `_dmarc.www.par.test. 300 IN TXT "v=DMARC1; p=reject"`))

	cfg := n.Config()
	cfg.QnameMinLevel = 5

	truth := hermeticAsk(t, n.handlerWithConfig(cfg), "_dmarc.www.par.test.", dns.TypeTXT)
	if truth.Rcode != dns.RcodeSuccess || len(truth.Answer) == 0 || !truth.AuthenticatedData {
		t.Fatalf("fixture: rcode=%s ad=%v answer=%v", dns.RcodeToString[truth.Rcode], truth.AuthenticatedData, truth.Answer)
	}

	// The signer's genuine NSEC of www.par.test.: A only.
	nsec := &dns.NSEC{
		Hdr:        dns.RR_Header{Name: "www.par.test.", Rrtype: dns.TypeNSEC, Class: dns.ClassINET, Ttl: 3600},
		NextDomain: "zz-last.par.test.",
		TypeBitMap: []uint16{dns.TypeA, dns.TypeRRSIG, dns.TypeNSEC},
	}
	sig := zone.key.sign(t, []dns.RR{nsec})
	// The tampered reply to the minimised question: NODATA without its SOA.
	zone.server.setSOAProof(nil)
	zone.server.proveAbsent("www.par.test.", dns.TypeTXT, nsec, sig)

	resp := hermeticAsk(t, n.handlerWithConfig(cfg), "_dmarc.www.par.test.", dns.TypeTXT)
	t.Logf("rcode=%s ad=%v question=%v answer=%d ns=%d", dns.RcodeToString[resp.Rcode],
		resp.AuthenticatedData, resp.Question, len(resp.Answer), len(resp.Ns))

	if resp.Rcode == dns.RcodeServerFailure {
		return // refusing is fine
	}
	if len(resp.Question) != 1 || !strings.EqualFold(resp.Question[0].Name, "_dmarc.www.par.test.") {
		t.Fatalf("the reply to _dmarc.www.par.test. TXT answers a different question: %v", resp.Question)
	}
	if len(resp.Answer) == 0 {
		t.Fatalf("_dmarc.www.par.test. TXT exists, yet a denial was returned (rcode=%s ad=%v): "+
			"the proof in hand is for the minimised name www.par.test. only",
			dns.RcodeToString[resp.Rcode], resp.AuthenticatedData)
	}
}
