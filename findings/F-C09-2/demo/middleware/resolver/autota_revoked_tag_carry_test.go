package resolver

import (
	"crypto/ed25519"
	"encoding/base64"
	"encoding/hex"
	"net"
	"sync"
	"testing"
	"time"

	"github.com/miekg/dns"
	"github.com/semihalev/sdns/config"
	"github.com/semihalev/sdns/middleware/resolver/dnssec"
)

// scriptedRoot is a loopback "root server" whose DNSKEY answer the test
// swaps between AutoTA runs.
type scriptedRoot struct {
	mu     sync.Mutex
	answer []dns.RR
	addr   string
	srv    *dns.Server
}

func (s *scriptedRoot) ServeDNS(w dns.ResponseWriter, r *dns.Msg) {
	resp := new(dns.Msg)
	resp.SetRcode(r, dns.RcodeSuccess)
	resp.Authoritative = true
	if r.Question[0].Name == "." && r.Question[0].Qtype == dns.TypeDNSKEY {
		s.mu.Lock()
		resp.Answer = append(resp.Answer, s.answer...)
		s.mu.Unlock()
	}
	_ = w.WriteMsg(resp)
}

func (s *scriptedRoot) set(rrs []dns.RR) {
	s.mu.Lock()
	s.answer = rrs
	s.mu.Unlock()
}

func startScriptedRoot(t *testing.T) *scriptedRoot {
	t.Helper()
	pc, err := net.ListenPacket("udp", "127.0.0.1:0")
	if err != nil {
		t.Fatalf("listen: %v", err)
	}
	s := &scriptedRoot{addr: pc.LocalAddr().String()}
	started := make(chan struct{})
	s.srv = &dns.Server{PacketConn: pc, Handler: s, NotifyStartedFunc: func() { close(started) }}
	go func() { _ = s.srv.ActivateAndServe() }()
	<-started
	t.Cleanup(func() { _ = s.srv.Shutdown() })
	return s
}

type taKey struct {
	key  *dns.DNSKEY
	priv ed25519.PrivateKey
}

func taKeyFromSeed(t *testing.T, seedHex string) taKey {
	t.Helper()
	seed, err := hex.DecodeString(seedHex)
	if err != nil || len(seed) != ed25519.SeedSize {
		t.Fatalf("bad seed %q", seedHex)
	}
	priv := ed25519.NewKeyFromSeed(seed)
	return taKey{
		priv: priv,
		key: &dns.DNSKEY{
			Hdr:       dns.RR_Header{Name: ".", Rrtype: dns.TypeDNSKEY, Class: dns.ClassINET, Ttl: 3600},
			Flags:     257,
			Protocol:  3,
			Algorithm: dns.ED25519,
			PublicKey: base64.StdEncoding.EncodeToString(priv.Public().(ed25519.PublicKey)),
		},
	}
}

func (k taKey) revoked() *dns.DNSKEY {
	r := *k.key
	r.Flags |= DNSKEYFlagRevoke
	return &r
}

// signDNSKEYSet signs set with priv, naming signer (the key form whose tag
// goes into the RRSIG).
func signDNSKEYSet(t *testing.T, set []dns.RR, signer *dns.DNSKEY, priv ed25519.PrivateKey) *dns.RRSIG {
	t.Helper()
	now := time.Now()
	sig := &dns.RRSIG{
		Hdr:         dns.RR_Header{Name: ".", Rrtype: dns.TypeRRSIG, Class: dns.ClassINET, Ttl: 3600},
		TypeCovered: dns.TypeDNSKEY,
		Algorithm:   signer.Algorithm,
		SignerName:  ".",
		KeyTag:      dnssec.KeyTag(signer),
		Inception:   uint32(now.Add(-time.Hour).Unix()), //nolint:gosec
		Expiration:  uint32(now.Add(time.Hour).Unix()),  //nolint:gosec
		OrigTtl:     3600,
	}
	if err := sig.Sign(priv, set); err != nil {
		t.Fatalf("sign: %v", err)
	}
	return sig
}

func newAutoTATestResolver(t *testing.T, root *scriptedRoot, anchors ...*dns.DNSKEY) *Resolver {
	t.Helper()
	cfg := new(config.Config)
	cfg.RootServers = []string{root.addr}
	for _, k := range anchors {
		cfg.RootKeys = append(cfg.RootKeys, k.String())
	}
	cfg.Maxdepth = 30
	cfg.Expire = 600
	cfg.CacheSize = 1024
	cfg.Timeout.Duration = 2 * time.Second
	cfg.Directory = t.TempDir()
	return NewResolver(cfg)
}

func liveAnchorTags(r *Resolver) map[uint16]bool {
	r.RLock()
	defer r.RUnlock()
	out := make(map[uint16]bool)
	for _, rr := range r.rootKeys {
		out[dnssec.KeyTag(rr.(*dns.DNSKEY))] = true
	}
	return out
}

// A trust anchor whose validly self-signed revocation is published must leave
// the live trust set at once (RFC 5011 §2.1, §4.2 "Valid + RevBit"). The
// revoked form's key tag is NOT always tag+128: setting the REVOKE bit adds
// 128 to the 32-bit RDATA sum, and when that carries out of the low 16 bits
// the folded tag moves by 129. The control key (no carry) and the carry key
// are otherwise identical in every respect.
func TestAutoTARevocationHonouredWhateverTheKeyTag(t *testing.T) {
	cases := []struct {
		name string
		seed string
	}{
		// tag 59663 -> revoked tag 59791 (+128)
		{"control_tag_plus_128", "0b8bd4ab1f0dbd3d4ad1b52a3f8a21e6d8a2cd2c1bd0c3a4a83b5d9d0c0e1f11"},
		// tag 65520 -> revoked tag 113 (+129 mod 65536)
		{"carry_tag_plus_129", "d0db8d8857917ea889884972bfedc73903a20e4e6155d01f7a3fa9fa235be41d"},
	}
	other := taKeyFromSeed(t, "1111111111111111111111111111111111111111111111111111111111111111")

	for _, tc := range cases {
		t.Run(tc.name, func(t *testing.T) {
			k := taKeyFromSeed(t, tc.seed)
			oldTag, revTag := dnssec.KeyTag(k.key), dnssec.KeyTag(k.revoked())
			t.Logf("anchor tag %d, revoked-form tag %d (delta %d)", oldTag, revTag, revTag-oldTag)

			root := startScriptedRoot(t)
			r := newAutoTATestResolver(t, root, k.key, other.key)

			// Refresh 1: the ordinary set, signed by both anchors.
			set := []dns.RR{k.key, other.key}
			root.set(append(append([]dns.RR{}, set...),
				signDNSKEYSet(t, set, k.key, k.priv),
				signDNSKEYSet(t, set, other.key, other.priv)))
			r.AutoTA()
			if live := liveAnchorTags(r); !live[oldTag] || !live[dnssec.KeyTag(other.key)] {
				t.Fatalf("setup: both anchors should be live after the first refresh, got %v", live)
			}

			// Refresh 2: the zone revokes k. The set carries k with the
			// REVOKE bit, is self-signed by the revoked key and is also
			// signed by the other, still-trusted anchor.
			rset := []dns.RR{k.revoked(), other.key}
			root.set(append(append([]dns.RR{}, rset...),
				signDNSKEYSet(t, rset, k.revoked(), k.priv),
				signDNSKEYSet(t, rset, other.key, other.priv)))
			r.AutoTA()

			if live := liveAnchorTags(r); live[oldTag] {
				t.Errorf("revoked trust anchor %d is still in the live trust set %v", oldTag, live)
			}
			tomb, err := readTombstones(r.cfg.Directory + "/" + tombstoneFile)
			if err != nil {
				t.Fatalf("read tombstones: %v", err)
			}
			if _, ok := tomb[dnskeyMaterialFP(k.key)]; !ok {
				t.Errorf("no tombstone recorded for revoked trust anchor %d", oldTag)
			}
		})
	}
}

// The same key when it is the ONLY anchor: the revocation set is then
// authenticated by nothing but the revoked key's own signature, which RFC 5011
// §2.1 allows for exactly one purpose - completing that revocation.
func TestAutoTARevokedOnlyAuthenticationCompletesRevocationWithCarryTag(t *testing.T) {
	k := taKeyFromSeed(t, "d0db8d8857917ea889884972bfedc73903a20e4e6155d01f7a3fa9fa235be41d")
	succ := taKeyFromSeed(t, "2222222222222222222222222222222222222222222222222222222222222222")
	oldTag := dnssec.KeyTag(k.key)

	root := startScriptedRoot(t)
	r := newAutoTATestResolver(t, root, k.key)

	set := []dns.RR{k.key}
	root.set(append(append([]dns.RR{}, set...), signDNSKEYSet(t, set, k.key, k.priv)))
	r.AutoTA()
	if live := liveAnchorTags(r); !live[oldTag] {
		t.Fatalf("setup: anchor should be live, got %v", live)
	}

	rset := []dns.RR{k.revoked(), succ.key}
	root.set(append(append([]dns.RR{}, rset...),
		signDNSKEYSet(t, rset, k.revoked(), k.priv),
		signDNSKEYSet(t, rset, succ.key, succ.priv)))
	r.AutoTA()

	if live := liveAnchorTags(r); live[oldTag] {
		t.Errorf("revoked trust anchor %d is still in the live trust set %v", oldTag, live)
	}
	if live := liveAnchorTags(r); live[dnssec.KeyTag(succ.key)] {
		t.Errorf("a set authenticated only by a revoked key introduced a new anchor: %v", live)
	}
}
