package resolver

import (
	"testing"

	"github.com/miekg/dns"
)

// TestHuntRenamedWildcardNSECDoesNotDenyExistingType: wild.test. is signed
// with NSEC and publishes a wildcard (`*.wild.test. A`) next to a concrete
// name that holds both A and AAAA (`www.wild.test.`).
//
// The zone's genuine NSEC for the wildcard is
//
//	*.wild.test. NSEC zz-last.wild.test. A RRSIG NSEC      RRSIG Labels=2
//
// A signature with Labels=2 verifies under ANY three-label owner below
// wild.test., because the validator rebuilds "*.wild.test." from the Labels
// field before hashing (RFC 4035 §5.3.2). That is what makes wildcard answers
// verifiable — and it lets a forger re-own the wildcard's NSEC as
// `www.wild.test. NSEC …  A RRSIG NSEC` and present it as the NODATA proof for
// `www.wild.test. AAAA`, a record the zone does publish.
func TestHuntRenamedWildcardNSECDoesNotDenyExistingType(t *testing.T) {
	n := newHermeticNet(t)
	zone := n.Delegate("wild.test.")
	zone.Serve(mustRR(t, "*.wild.test. 300 IN A 192.0.2.1"))
	zone.Serve(mustRR(t, "www.wild.test. 300 IN A 192.0.2.2"))
	zone.Serve(mustRR(t, "www.wild.test. 300 IN AAAA 2001:db8::2"))

	handler := n.Handler()

	// Ground truth: the zone publishes the AAAA, and it validates.
	truth := hermeticAsk(t, handler, "www.wild.test.", dns.TypeAAAA)
	if truth.Rcode != dns.RcodeSuccess || len(truth.Answer) == 0 || !truth.AuthenticatedData {
		t.Fatalf("fixture: genuine AAAA did not validate: rcode=%s ad=%v answer=%v",
			dns.RcodeToString[truth.Rcode], truth.AuthenticatedData, truth.Answer)
	}

	// What the signer really published for the wildcard owner.
	wildNSEC := &dns.NSEC{
		Hdr:        dns.RR_Header{Name: "*.wild.test.", Rrtype: dns.TypeNSEC, Class: dns.ClassINET, Ttl: 3600},
		NextDomain: "zz-last.wild.test.",
		TypeBitMap: []uint16{dns.TypeA, dns.TypeRRSIG, dns.TypeNSEC},
	}
	wildSig := zone.key.sign(t, []dns.RR{wildNSEC})
	if wildSig.Labels != 2 {
		t.Fatalf("fixture: wildcard RRSIG has Labels=%d, want 2", wildSig.Labels)
	}

	// The tamper: nothing but the two owner names change. Neither is covered
	// by the signature.
	forgedNSEC := dns.Copy(wildNSEC).(*dns.NSEC)
	forgedNSEC.Hdr.Name = "www.wild.test."
	forgedSig := dns.Copy(wildSig).(*dns.RRSIG)
	forgedSig.Hdr.Name = "www.wild.test."

	// From here on the reply to `www.wild.test. AAAA` is the forger's: empty
	// answer, the zone's signed SOA, and the re-owned NSEC.
	zone.server.mu.Lock()
	delete(zone.server.records, hermeticRRSetKey{"www.wild.test.", dns.TypeAAAA})
	zone.server.mu.Unlock()
	zone.server.proveAbsent("www.wild.test.", dns.TypeAAAA, forgedNSEC, forgedSig)

	resp := hermeticAsk(t, handler, "www.wild.test.", dns.TypeAAAA)
	t.Logf("rcode=%s ad=%v answer=%d ns=%v", dns.RcodeToString[resp.Rcode],
		resp.AuthenticatedData, len(resp.Answer), resp.Ns)

	if resp.Rcode == dns.RcodeSuccess && len(resp.Answer) == 0 {
		t.Fatalf("www.wild.test. AAAA exists, yet a NODATA built from the "+
			"wildcard's NSEC renamed to www.wild.test. was accepted (AD=%v)",
			resp.AuthenticatedData)
	}
	if resp.Rcode != dns.RcodeServerFailure {
		t.Fatalf("rcode = %s, want SERVFAIL for a tampered denial", dns.RcodeToString[resp.Rcode])
	}
}
