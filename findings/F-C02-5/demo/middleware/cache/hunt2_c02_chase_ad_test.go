package cache

import (
	"context"
	"testing"

	"github.com/miekg/dns"
	"github.com/semihalev/sdns/config"
)

// The outer reply is a validated alias out of a signed zone (AD=1). Its target
// lives in an insecure zone whose server — or anyone able to spoof it — gives
// the terminal negative reply with empty sections: a bare NXDOMAIN, or an empty
// NOERROR. Both are what the resolver hands up for an unsigned zone (resolve()
// relays them after authority() finds nothing to validate), with AD=0.
//
// The composed reply's rcode / empty tail is the target's unauthenticated word.
// It must not go out with the alias's AD: the resolver's own DNAME splice ANDs
// the two unconditionally (answer(): resp.AD = resp.AD && targetMsg.AD); the
// cache's CNAME chase only did so when the target reply happened to carry
// records.
func TestHunt2C02ChaseDoesNotLendADToBareNegativeTarget(t *testing.T) {
	cases := []struct {
		name  string
		rcode int
	}{
		{"bare NXDOMAIN target", dns.RcodeNameError},
		{"empty NOERROR target", dns.RcodeSuccess},
	}
	for _, tc := range cases {
		t.Run(tc.name, func(t *testing.T) {
			cfg := &config.Config{CacheSize: 1024, Expire: 300}
			c := New(cfg)
			defer c.Stop()

			target := new(dns.Msg)
			target.SetQuestion("gone.insecure.example.", dns.TypeA)
			target.Response = true
			target.Rcode = tc.rcode
			target.AuthenticatedData = false // unsigned zone: nothing was validated
			q := &stubQueryer{responses: map[string]*dns.Msg{"gone.insecure.example.": target}}
			c.queryer = q

			outer := new(dns.Msg)
			outer.SetQuestion("www.secure.example.", dns.TypeA)
			outer.Response = true
			outer.AuthenticatedData = true // the alias itself validated
			outer.Answer = []dns.RR{
				&dns.CNAME{
					Hdr:    dns.RR_Header{Name: "www.secure.example.", Rrtype: dns.TypeCNAME, Class: dns.ClassINET, Ttl: 300},
					Target: "gone.insecure.example.",
				},
			}

			result := c.additionalAnswer(context.Background(), outer)

			if q.calls == 0 {
				t.Fatal("the target was never looked up; the chase did not run")
			}
			if result.Rcode != tc.rcode {
				t.Fatalf("rcode = %s, want the target's %s", dns.RcodeToString[result.Rcode], dns.RcodeToString[tc.rcode])
			}
			if result.AuthenticatedData {
				t.Fatalf("%s (AD=0) composed onto a validated alias went out with AD=1:\n%s", tc.name, result)
			}
		})
	}
}
