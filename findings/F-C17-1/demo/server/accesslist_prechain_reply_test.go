package server

import (
	"context"
	"encoding/binary"
	"net"
	"sync/atomic"
	"testing"
	"time"

	"github.com/miekg/dns"
	"github.com/semihalev/sdns/config"
	"github.com/semihalev/sdns/internal/mock"
	"github.com/semihalev/sdns/middleware"
	"github.com/semihalev/sdns/middleware/accesslist"
)

// A source outside the access list must get no reply at all, on every
// transport. These tests drive the real Server (real accesslist handler in
// the pipeline) and show that the replies the server builds itself ahead of
// the chain - the bare-header NOTIMP/FORMERR rejections of the UDP and TCP
// engines and the QDCOUNT guard of the decoded entry - still go out to a
// denied source.

type answerAll struct{ hits *atomic.Int64 }

func (a answerAll) Name() string { return "answerall" }
func (a answerAll) ServeDNS(ctx context.Context, ch *middleware.Chain) {
	a.hits.Add(1)
	ctx, req := ch.Materialize(ctx)
	if req == nil {
		return
	}
	m := new(dns.Msg)
	m.SetReply(req)
	_ = ch.Writer.WriteMsg(m)
	ch.Cancel()
}

func accessListServer(t *testing.T, list ...string) (*Server, *atomic.Int64) {
	t.Helper()
	hits := new(atomic.Int64)
	cfg := &config.Config{AccessList: list}
	reg := middleware.NewRegistry()
	reg.Register("accesslist", func(cfg *config.Config) middleware.Handler { return accesslist.New(cfg) })
	reg.Register("answerall", func(*config.Config) middleware.Handler { return answerAll{hits} })
	return &Server{cfg: cfg, pipeline: reg.Build(cfg)}, hits
}

func hdr(id, flags, qd, an, ns, ar uint16) []byte {
	b := make([]byte, 12)
	binary.BigEndian.PutUint16(b[0:2], id)
	binary.BigEndian.PutUint16(b[2:4], flags)
	binary.BigEndian.PutUint16(b[4:6], qd)
	binary.BigEndian.PutUint16(b[6:8], an)
	binary.BigEndian.PutUint16(b[8:10], ns)
	binary.BigEndian.PutUint16(b[10:12], ar)
	return b
}

var prechainPackets = []struct {
	name string
	pkt  []byte
}{
	{"foreign opcode (UPDATE)", hdr(8, uint16(dns.OpcodeUpdate)<<11, 0, 0, 0, 0)},
	{"qdcount 2", hdr(9, 0, 2, 0, 0, 0)},
	{"query with ancount 2", hdr(10, 0, 1, 2, 0, 0)},
	{"undecodable body", append(hdr(12, 0, 1, 0, 0, 0), 0xC0, 0x0C, 0, 1, 0, 1)},
	{"qdcount 1 with no question bytes", hdr(13, 0, 1, 0, 0, 0)},
}

func TestDeniedSourceGetsNoPreChainReplyUDP(t *testing.T) {
	// The client is 127.0.0.1; only 10/8 is allowed.
	s, hits := accessListServer(t, "10.0.0.0/8")
	addr, stop := startEngine(t, s, 2, 16)
	defer stop()

	conn, err := net.Dial("udp", addr)
	if err != nil {
		t.Fatal(err)
	}
	defer conn.Close()

	silent := func(name string, pkt []byte) {
		t.Helper()
		if _, err := conn.Write(pkt); err != nil {
			t.Fatal(err)
		}
		buf := make([]byte, 512)
		_ = conn.SetReadDeadline(time.Now().Add(300 * time.Millisecond))
		if n, err := conn.Read(buf); err == nil {
			t.Errorf("udp %s: denied source got a %d-byte reply (rcode %d), want silence",
				name, n, buf[3]&0x0F)
		}
	}

	// Control: a well-formed query from the denied source is dropped.
	q := new(dns.Msg)
	q.SetQuestion("example.com.", dns.TypeA)
	wq, _ := q.Pack()
	silent("well-formed query", wq)

	for _, p := range prechainPackets {
		silent(p.name, p.pkt)
	}
	if n := hits.Load(); n != 0 {
		t.Errorf("handler behind the access list ran %d times for a denied source", n)
	}
}

func TestDeniedSourceGetsNoPreChainReplyTCP(t *testing.T) {
	s, hits := accessListServer(t, "10.0.0.0/8")
	addr, _, stop := startTCPEngine(t, s, 8)
	defer stop()

	conn, err := net.Dial("tcp", addr)
	if err != nil {
		t.Fatal(err)
	}
	defer conn.Close()

	for _, p := range prechainPackets {
		writeFrame(t, conn, p.pkt)
		_ = conn.SetReadDeadline(time.Now().Add(300 * time.Millisecond))
		var b [14]byte
		if n, err := conn.Read(b[:]); err == nil && n > 0 {
			t.Errorf("tcp %s: denied source got a reply (%d bytes), want silence", p.name, n)
		}
	}
	if n := hits.Load(); n != 0 {
		t.Errorf("handler behind the access list ran %d times for a denied source", n)
	}
}

// The decoded entry (DoH, DoH3, DoQ, embedders).
func TestDeniedSourceGetsNoPreChainReplyDecoded(t *testing.T) {
	s, hits := accessListServer(t, "10.0.0.0/8")

	for _, proto := range []string{"doh", "udp", "tcp"} {
		req := new(dns.Msg) // QDCOUNT 0
		req.Id = dns.Id()
		mw := mock.NewWriter(proto, "192.0.2.1:4000")
		s.ServeMsg(context.Background(), mw, req)
		if mw.Written() {
			t.Errorf("%s: denied source 192.0.2.1 got a reply (rcode %d) to a QDCOUNT=0 query, want none",
				proto, mw.Msg().Rcode)
		}

		two := new(dns.Msg)
		two.Id = dns.Id()
		two.Question = []dns.Question{
			{Name: "a.example.", Qtype: dns.TypeA, Qclass: dns.ClassINET},
			{Name: "b.example.", Qtype: dns.TypeA, Qclass: dns.ClassINET},
		}
		mw = mock.NewWriter(proto, "192.0.2.1:4000")
		s.ServeMsg(context.Background(), mw, two)
		if mw.Written() {
			t.Errorf("%s: denied source 192.0.2.1 got a reply (rcode %d) to a QDCOUNT=2 query, want none",
				proto, mw.Msg().Rcode)
		}
	}
	if n := hits.Load(); n != 0 {
		t.Errorf("handler behind the access list ran %d times for a denied source", n)
	}
}

// Allowed sources keep the library-shaped rejections: the fix must not
// remove them.
func TestAllowedSourceKeepsPreChainRejections(t *testing.T) {
	s, _ := accessListServer(t, "127.0.0.0/8", "192.0.2.0/24")
	addr, stop := startEngine(t, s, 2, 16)
	defer stop()
	conn, err := net.Dial("udp", addr)
	if err != nil {
		t.Fatal(err)
	}
	defer conn.Close()
	want := []int{dns.RcodeNotImplemented, dns.RcodeFormatError, dns.RcodeFormatError, dns.RcodeFormatError, dns.RcodeFormatError}
	for i, p := range prechainPackets {
		if _, err := conn.Write(p.pkt); err != nil {
			t.Fatal(err)
		}
		buf := make([]byte, 512)
		_ = conn.SetReadDeadline(time.Now().Add(2 * time.Second))
		n, err := conn.Read(buf)
		if err != nil || n < 12 {
			t.Fatalf("udp %s: allowed source got no reply: %v", p.name, err)
		}
		if got := int(buf[3] & 0x0F); got != want[i] {
			t.Errorf("udp %s: rcode %d, want %d", p.name, got, want[i])
		}
	}

	taddr, _, tstop := startTCPEngine(t, s, 8)
	defer tstop()
	tc, err := net.Dial("tcp", taddr)
	if err != nil {
		t.Fatal(err)
	}
	defer tc.Close()
	for i, p := range prechainPackets {
		writeFrame(t, tc, p.pkt)
		reply := readFrame(t, tc)
		if got := int(reply[3] & 0x0F); got != want[i] {
			t.Errorf("tcp %s: rcode %d, want %d", p.name, got, want[i])
		}
	}

	req := new(dns.Msg)
	req.Id = dns.Id()
	mw := mock.NewWriter("doh", "192.0.2.1:4000")
	s.ServeMsg(context.Background(), mw, req)
	if !mw.Written() || mw.Msg().Rcode != dns.RcodeFormatError {
		t.Errorf("allowed source lost the FORMERR for a QDCOUNT=0 query")
	}
}
