package resolver

import (
	"context"
	"net"
	"sync"
	"testing"
	"time"

	"github.com/miekg/dns"
	"github.com/semihalev/sdns/internal/mock"
	"github.com/semihalev/sdns/middleware"
	cachemw "github.com/semihalev/sdns/middleware/cache"
	"github.com/semihalev/sdns/middleware/edns"
)

// startECSAuth is a loopback authoritative server whose handler sees the
// whole query, so it can tailor the answer on the EDNS Client Subnet option
// and declare a SCOPE in its reply the way a geo-aware authority does.
func startECSAuth(t *testing.T, handle func(r *dns.Msg) *dns.Msg) string {
	t.Helper()
	pc, err := net.ListenPacket("udp", "127.0.0.1:0")
	if err != nil {
		t.Fatalf("listen udp: %v", err)
	}
	mux := dns.NewServeMux()
	mux.HandleFunc(".", func(w dns.ResponseWriter, r *dns.Msg) {
		if len(r.Question) != 1 {
			return
		}
		_ = w.WriteMsg(handle(r))
	})
	s := &dns.Server{Net: "udp", PacketConn: pc, Handler: mux}
	go func() { _ = s.ActivateAndServe() }()
	time.Sleep(10 * time.Millisecond)
	t.Cleanup(func() { _ = s.Shutdown() })
	return pc.LocalAddr().String()
}

func querySubnet(r *dns.Msg) *dns.EDNS0_SUBNET {
	opt := r.IsEdns0()
	if opt == nil {
		return nil
	}
	for _, o := range opt.Option {
		if sub, ok := o.(*dns.EDNS0_SUBNET); ok {
			return sub
		}
	}
	return nil
}

// TestECSScopedAnswerThroughIterativeResolver drives two clients from
// different subnets through edns -> cache -> resolver against an authority
// that answers per subnet and declares SCOPE=/24 (RFC 7871 §7.2.1). The
// second client is outside the first answer's scope, so it must not be
// served the first client's tailored answer from the cache.
func TestECSScopedAnswerThroughIterativeResolver(t *testing.T) {
	var (
		mu       sync.Mutex
		geoSeen  []string // ECS prefixes the geo authority was asked with
		geoCalls int
	)

	geoAddr := startECSAuth(t, func(r *dns.Msg) *dns.Msg {
		q := r.Question[0]
		reply := new(dns.Msg)
		reply.SetReply(r)
		reply.Authoritative = true

		if dns.CanonicalName(q.Name) != "www.geo." || q.Qtype != dns.TypeA {
			reply.Ns = []dns.RR{mustRR(t, "geo. 30 IN SOA ns.geo. hostmaster.geo. 1 30 30 30 30")}
			return reply
		}

		answer := "192.0.2.100" // the untailored default
		sub := querySubnet(r)
		mu.Lock()
		geoCalls++
		if sub != nil {
			geoSeen = append(geoSeen, sub.Address.String()+"/"+itoa(int(sub.SourceNetmask)))
		} else {
			geoSeen = append(geoSeen, "none")
		}
		mu.Unlock()

		if sub != nil {
			switch {
			case (&net.IPNet{IP: net.IPv4(198, 51, 100, 0), Mask: net.CIDRMask(24, 32)}).Contains(sub.Address):
				answer = "192.0.2.101"
			case (&net.IPNet{IP: net.IPv4(203, 0, 113, 0), Mask: net.CIDRMask(24, 32)}).Contains(sub.Address):
				answer = "192.0.2.102"
			}
			// RFC 7871 §7.2.1: echo FAMILY / SOURCE / ADDRESS, declare SCOPE.
			o := new(dns.OPT)
			o.Hdr.Name = "."
			o.Hdr.Rrtype = dns.TypeOPT
			o.SetUDPSize(1232)
			o.Option = append(o.Option, &dns.EDNS0_SUBNET{
				Code:          dns.EDNS0SUBNET,
				Family:        sub.Family,
				SourceNetmask: sub.SourceNetmask,
				SourceScope:   24,
				Address:       sub.Address,
			})
			reply.Extra = append(reply.Extra, o)
		}
		reply.Answer = []dns.RR{mustRR(t, "www.geo. 300 IN A "+answer)}
		return reply
	})

	rootAddr := startECSAuth(t, func(r *dns.Msg) *dns.Msg {
		q := r.Question[0]
		name := dns.CanonicalName(q.Name)
		reply := new(dns.Msg)
		reply.SetReply(r)
		switch {
		case name == "." && q.Qtype == dns.TypeNS:
			reply.Authoritative = true
			reply.Answer = []dns.RR{mustRR(t, ". 3600 IN NS a.root.")}
		case q.Qtype == dns.TypeDS:
			reply.Authoritative = true
			reply.Ns = []dns.RR{mustRR(t, ". 30 IN SOA a.root. hostmaster.root. 1 30 30 30 30")}
		case dns.IsSubDomain("geo.", name):
			reply.Ns = []dns.RR{mustRR(t, "geo. 3600 IN NS ns.geo.")}
			reply.Extra = []dns.RR{mustRR(t, "ns.geo. 3600 IN A 192.0.2.31")}
		default:
			reply.Authoritative = true
			reply.Ns = []dns.RR{mustRR(t, ". 30 IN SOA a.root. hostmaster.root. 1 30 30 30 30")}
		}
		return reply
	})

	remap := map[string]string{"192.0.2.31:53": geoAddr}
	mapper := func(addr string) string {
		if to, ok := remap[addr]; ok {
			return to
		}
		return addr
	}

	base := makeTestConfig()
	cfg := *base
	cfg.RootServers = []string{rootAddr}
	cfg.Root6Servers = nil
	cfg.DNSSEC = "off"
	cfg.CacheSize = 1024
	cfg.RateLimit = 0
	cfg.ECS.Enabled = true // forward_v4 defaults to /24

	h := New(&cfg)
	h.resolver.resolveTarget.Store(&mapper)

	em := edns.New(&cfg)
	cm := cachemw.New(&cfg)
	defer cm.Stop()
	sub := &chainQueryer{handlers: []middleware.Handler{h}}
	cm.SetPrefetchQueryer(sub)
	cm.SetQueryer(sub)

	ask := func(clientSubnet string) string {
		t.Helper()
		req := new(dns.Msg)
		req.SetQuestion("www.geo.", dns.TypeA)
		req.SetEdns0(1232, false)
		req.IsEdns0().Option = append(req.IsEdns0().Option, &dns.EDNS0_SUBNET{
			Code:          dns.EDNS0SUBNET,
			Family:        1,
			SourceNetmask: 32,
			Address:       net.ParseIP(clientSubnet).To4(),
		})
		w := mock.NewWriter("udp", "127.0.0.1:0")
		ch := middleware.NewChain([]middleware.Handler{em, cm, h})
		ch.Reset(w, req)
		ch.Next(context.Background())
		if !w.Written() {
			t.Fatalf("client %s: no response written", clientSubnet)
		}
		resp := w.Msg()
		if resp.Rcode != dns.RcodeSuccess || len(resp.Answer) != 1 {
			t.Fatalf("client %s: rcode=%s answers=%d", clientSubnet,
				dns.RcodeToString[resp.Rcode], len(resp.Answer))
		}
		if opt := resp.IsEdns0(); opt != nil {
			for _, o := range opt.Option {
				if _, ok := o.(*dns.EDNS0_SUBNET); ok {
					t.Errorf("client %s: reply carries an ECS option", clientSubnet)
				}
			}
		}
		return resp.Answer[0].(*dns.A).A.String()
	}

	// Client A sits in 198.51.100.0/24; the authority tailors and scopes /24.
	if got := ask("198.51.100.7"); got != "192.0.2.101" {
		t.Fatalf("client A: got %s, want the 198.51.100.0/24 answer 192.0.2.101", got)
	}
	// Client B sits in 203.0.113.0/24 — outside the scope A's answer declared.
	gotB := ask("203.0.113.9")

	mu.Lock()
	seen := append([]string(nil), geoSeen...)
	calls := geoCalls
	mu.Unlock()
	t.Logf("geo authority was asked %d time(s), ECS seen: %v", calls, seen)

	if gotB != "192.0.2.102" {
		t.Fatalf("client B (203.0.113.9) was served %s — the answer the authority scoped to "+
			"198.51.100.0/24 — instead of its own 192.0.2.102; authority saw %v", gotB, seen)
	}
	if calls != 2 {
		t.Fatalf("authority asked %d time(s), want 2 (one per client subnet); saw %v", calls, seen)
	}
}

func itoa(v int) string {
	if v == 0 {
		return "0"
	}
	var b []byte
	for v > 0 {
		b = append([]byte{byte('0' + v%10)}, b...)
		v /= 10
	}
	return string(b)
}
