package resolver

import (
	"strings"
	"testing"

	"github.com/miekg/dns"
)

// TestHuntAnswerCarriesOnlyTheAliasChain: chain.test. is signed and publishes
//
//	www.chain.test.  CNAME real.chain.test.
//	real.chain.test. A     192.0.2.7
//	evil.chain.test. A     6.6.6.6        (another customer's host in the same zone)
//
// The answer to `www.chain.test. A` is the alias and the address of its
// target. The tampered reply keeps the genuine alias and swaps the target's
// address RRset for evil.chain.test.'s — every record and every signature in
// it is the signer's own, so DNSSEC validation has nothing to object to.
func TestHuntAnswerCarriesOnlyTheAliasChain(t *testing.T) {
	n := newHermeticNet(t)
	zone := n.Delegate("chain.test.")

	cname := mustRR(t, "www.chain.test. 300 IN CNAME real.chain.test.")
	realA := mustRR(t, "real.chain.test. 300 IN A 192.0.2.7")
	evilA := mustRR(t, "evil.chain.test. 300 IN A 6.6.6.6")
	zone.Serve(realA)
	zone.Serve(evilA)

	// The reply to `www.chain.test. A` as it arrives: alias + somebody
	// else's address, all genuinely signed.
	zone.server.serve("www.chain.test.", dns.TypeA,
		cname, zone.key.sign(t, []dns.RR{cname}),
		evilA, zone.key.sign(t, []dns.RR{evilA}))

	resp := hermeticAsk(t, n.Handler(), "www.chain.test.", dns.TypeA)
	t.Logf("rcode=%s ad=%v answer=%v", dns.RcodeToString[resp.Rcode], resp.AuthenticatedData, resp.Answer)

	if resp.Rcode == dns.RcodeServerFailure {
		return // refusing the reply is fine
	}
	for _, rr := range resp.Answer {
		owner := strings.ToLower(rr.Header().Name)
		if owner != "www.chain.test." && owner != "real.chain.test." {
			t.Fatalf("the answer to www.chain.test. A (alias of real.chain.test.) "+
				"carries %q with AD=%v: a record that is neither the query name's "+
				"nor its alias target's", rr.String(), resp.AuthenticatedData)
		}
	}
}
