package resolver

import (
	"context"
	"testing"

	"github.com/miekg/dns"
	"github.com/semihalev/sdns/internal/mock"
	"github.com/semihalev/sdns/middleware"
	"github.com/semihalev/sdns/middleware/dns64"
)

// dns64SubQueryer is the internal sub-pipeline DNS64's secondary A lookup
// runs through: the same resolver, entered through an internal writer.
type dns64SubQueryer2 struct{ handlers []middleware.Handler }

func (q *dns64SubQueryer2) Query(ctx context.Context, req *dns.Msg) (*dns.Msg, error) {
	w := mock.NewWriter("tcp", "127.0.0.255:0")
	ch := middleware.NewChain(q.handlers)
	ch.Reset(w, req)
	ch.Next(ctx)
	if !w.Written() {
		return nil, middleware.ErrNoResponse
	}
	return w.Msg(), nil
}

// TestDNS64DoesNotSynthesiseOverUnsupportedAlgRRSIG: the zone is signed and validates
// from the trust anchor. Its A RRset is fine. Its AAAA RRset has been tampered
// with — the RRSIG was made over a different address — so the validator
// rejects it (bad signature: the textbook bogus answer) and the resolver
// answers SERVFAIL. RFC 6147 §5.5 / the DNS64 contract: never synthesise over
// a DNSSEC validation failure; the client must see that SERVFAIL.
func TestDNS64DoesNotSynthesiseOverUnsupportedAlgRRSIG(t *testing.T) {
	n := newHermeticNet(t)
	zone := n.Delegate("shop.test.")
	zone.Serve(mustRR(t, "www.shop.test. 300 IN A 198.51.100.10"))

	genuine := mustRR(t, "www.shop.test. 300 IN AAAA 2001:db8::1")
	forged := mustRR(t, "www.shop.test. 300 IN AAAA 2001:db8::bad")
	sig := zone.key.sign(t, []dns.RR{genuine})
	_ = forged
	forged = genuine
	sig.Algorithm = 200
	zone.server.serve("www.shop.test.", dns.TypeAAAA, forged, sig)

	cfg := n.Config()
	cfg.DNS64.Enabled = true
	cfg.DNS64.Prefixes = []string{"2001:db8:64::/96"}

	h := n.handlerWithConfig(cfg)
	d := dns64.New(cfg)
	if d == nil {
		t.Fatal("dns64 disabled")
	}
	d.SetQueryer(&dns64SubQueryer2{handlers: []middleware.Handler{h}})

	// Control: what the resolver itself says about the AAAA.
	ctrlReq := new(dns.Msg)
	ctrlReq.SetQuestion("www.shop.test.", dns.TypeAAAA)
	ctrlReq.SetEdns0(1232, true)
	ctrl := h.handle(context.Background(), ctrlReq)
	if ctrl.Rcode != dns.RcodeServerFailure {
		t.Fatalf("fixture: resolver must reject the tampered AAAA, got rcode=%s answers=%v",
			dns.RcodeToString[ctrl.Rcode], ctrl.Answer)
	}
	if opt := ctrl.IsEdns0(); opt != nil {
		for _, o := range opt.Option {
			if ede, ok := o.(*dns.EDNS0_EDE); ok {
				t.Logf("resolver's verdict on the AAAA: SERVFAIL, EDE %d (%s) %q",
					ede.InfoCode, dns.ExtendedErrorCodeToString[ede.InfoCode], ede.ExtraText)
			}
		}
	}

	// The client's query through dns64 -> resolver.
	req := new(dns.Msg)
	req.SetQuestion("www.shop.test.", dns.TypeAAAA)
	req.SetEdns0(1232, true)
	w := mock.NewWriter("udp", "198.51.100.200:0")
	ch := middleware.NewChain([]middleware.Handler{d, h})
	ch.Reset(w, req)
	ch.Next(context.Background())
	if !w.Written() {
		t.Fatal("nothing written")
	}
	got := w.Msg()
	t.Logf("client got rcode=%s answer=%v", dns.RcodeToString[got.Rcode], got.Answer)

	for _, rr := range got.Answer {
		if aaaa, ok := rr.(*dns.AAAA); ok {
			t.Errorf("DNS64 synthesised %s over a DNSSEC validation failure of the native AAAA", aaaa.AAAA)
		}
	}
	if got.Rcode != dns.RcodeServerFailure {
		t.Errorf("client got %s; the validation failure (SERVFAIL) must reach it unchanged",
			dns.RcodeToString[got.Rcode])
	}
}
