package dnssec

import (
	"crypto"
	"testing"
	"time"

	"github.com/miekg/dns"
)

// signatureBinding promises to mirror dns.RRSIG.Verify's preflight and never
// to be more permissive than it. The library compares names with an ASCII-only
// case fold (RFC 4343) after rooting the signer name; signatureBinding uses
// strings.EqualFold on the raw strings, which (a) folds Unicode — U+212A KELVIN
// SIGN and U+017F LONG S fold to "k" and "s" — and (b) lets an unrooted
// signer name equal an unrooted key owner. In both cases verifySignature
// accepts a key/signature pair the reference refuses with ErrKey: the RRSIG
// names one zone as its signer and is accepted under a DNSKEY owned by a
// different name.
func TestFindingC14BindingIsMorePermissiveThanLibrary(t *testing.T) {
	key := &dns.DNSKEY{
		Hdr:       dns.RR_Header{Name: "k.example.", Rrtype: dns.TypeDNSKEY, Class: dns.ClassINET, Ttl: 3600},
		Flags:     257,
		Protocol:  3,
		Algorithm: dns.ED25519,
	}
	private, err := key.Generate(256)
	if err != nil {
		t.Fatal(err)
	}

	rr, err := dns.NewRR("www.k.example. 300 IN A 192.0.2.1")
	if err != nil {
		t.Fatal(err)
	}
	set := []dns.RR{rr}

	now := time.Now()
	sig := &dns.RRSIG{
		Hdr:        dns.RR_Header{Name: "www.k.example.", Rrtype: dns.TypeRRSIG, Class: dns.ClassINET, Ttl: 300},
		Algorithm:  key.Algorithm,
		Expiration: uint32(now.Add(time.Hour).Unix()),
		Inception:  uint32(now.Add(-time.Hour).Unix()),
		KeyTag:     key.KeyTag(),
		SignerName: "k.example.",
	}
	if err := sig.Sign(private.(crypto.Signer), set); err != nil {
		t.Fatal(err)
	}
	if err := sig.Verify(key, set); err != nil {
		t.Fatalf("fixture: library refuses the genuine pair: %v", err)
	}
	if err := verifySignature(key, sig, set); err != nil {
		t.Fatalf("fixture: verifySignature refuses the genuine pair: %v", err)
	}

	t.Run("key owned by a different (non-ASCII) name", func(t *testing.T) {
		// Same key material and tag, but the DNSKEY is owned by
		// "<U+212A>.example." — three octets E2 84 AA, not the octet 'k'.
		other := *key
		other.Hdr.Name = "\u212a.example."

		if err := sig.Verify(&other, set); err == nil {
			t.Fatal("reference accepts; the comparison below would be vacuous")
		}
		if err := verifySignature(&other, sig, set); err == nil {
			t.Errorf("verifySignature accepts an RRSIG signed by %q under a DNSKEY owned by %q; dns.RRSIG.Verify refuses it (ErrKey)",
				sig.SignerName, other.Hdr.Name)
		}
	})

	t.Run("unrooted signer and key owner", func(t *testing.T) {
		unrootedKey := *key
		unrootedKey.Hdr.Name = "k.example"
		unrootedSig := *sig
		unrootedSig.SignerName = "k.example"

		if err := unrootedSig.Verify(&unrootedKey, set); err == nil {
			t.Fatal("reference accepts; the comparison below would be vacuous")
		}
		if err := verifySignature(&unrootedKey, &unrootedSig, set); err == nil {
			t.Errorf("verifySignature accepts signer %q under key owner %q; dns.RRSIG.Verify refuses it (ErrKey)",
				unrootedSig.SignerName, unrootedKey.Hdr.Name)
		}
	})

	t.Run("RRSIG owner differs from RRset owner beyond ASCII case", func(t *testing.T) {
		// The RRset is owned by "<U+212A>.k.example.", the RRSIG by
		// "k.k.example."; the signature is made over the RRset as it is.
		odd, err := dns.NewRR("k.k.example. 300 IN A 192.0.2.1")
		if err != nil {
			t.Fatal(err)
		}
		odd.Header().Name = "\u212a.k.example."
		oddSet := []dns.RR{odd}
		oddSig := *sig
		oddSig.Hdr.Name = "\u212a.k.example."
		if err := oddSig.Sign(private.(crypto.Signer), oddSet); err != nil {
			t.Fatal(err)
		}
		oddSig.Hdr.Name = "k.k.example."

		if err := oddSig.Verify(key, oddSet); err == nil {
			t.Fatal("reference accepts; the comparison below would be vacuous")
		}
		if err := verifySignature(key, &oddSig, oddSet); err == nil {
			t.Errorf("verifySignature accepts an RRSIG owned by %q for an RRset owned by %q; dns.RRSIG.Verify refuses it (ErrRRset)",
				oddSig.Hdr.Name, odd.Header().Name)
		}
	})
}
