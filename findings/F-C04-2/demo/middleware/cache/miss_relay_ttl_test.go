package cache

import (
	"context"
	"os"
	"testing"
	"time"

	"github.com/miekg/dns"
	"github.com/semihalev/sdns/internal/mock"
	"github.com/semihalev/sdns/middleware"
)

// The reply that fills the cache is a reply to a client like any other: the
// TTL it shows must not exceed the lifetime the answer was just admitted
// with. Otherwise whoever asked first (a stub cache, a forwarding resolver
// in front of this one) is told to keep the answer long past the delegation
// lease or signature it hangs from, and the very next client — served from
// the entry — sees a much smaller TTL for the same data.
func missRelayQuery(t *testing.T, c *Cache, upstream middleware.Handler, name string, do bool) *dns.Msg {
	t.Helper()
	req := new(dns.Msg)
	req.SetQuestion(name, dns.TypeA)
	req.RecursionDesired = true
	req.SetEdns0(1232, do)

	w := mock.NewWriter("udp", "127.0.0.1:0")
	ch := middleware.NewChain([]middleware.Handler{c, upstream})
	ch.Reset(w, req)
	ch.Next(context.Background())
	if !w.Written() {
		t.Fatalf("no reply for %s", name)
	}
	return w.Msg()
}

func maxRecordTTL(m *dns.Msg) uint32 {
	var ttl uint32
	for _, section := range [][]dns.RR{m.Answer, m.Ns, m.Extra} {
		for _, rr := range section {
			if rr.Header().Rrtype == dns.TypeOPT {
				continue
			}
			if rr.Header().Ttl > ttl {
				ttl = rr.Header().Ttl
			}
		}
	}
	return ttl
}

func TestMissReplyTTLBoundedByDelegationLease(t *testing.T) {
	cfg := makeTestConfig()
	defer os.RemoveAll(cfg.Directory)
	c := New(cfg)
	defer c.Stop()

	const lease = 20 * time.Second
	calls := 0
	upstream := middleware.HandlerFunc(func(ctx context.Context, ch *middleware.Chain) {
		calls++
		// What the resolver does while walking a learned delegation: it
		// reports the parent-granted lease of the cut the answer came from.
		middleware.ResponseMetaFrom(ctx).BoundCut(time.Now().Add(lease))
		resp := cutTestMsg("lease.example.", dns.RcodeSuccess, 3600)
		resp.SetReply(ch.Request.Msg())
		resp.Answer = cutTestMsg("lease.example.", dns.RcodeSuccess, 3600).Answer
		_ = ch.Writer.WriteMsg(resp)
		ch.Cancel()
	})

	first := missRelayQuery(t, c, upstream, "lease.example.", false)
	second := missRelayQuery(t, c, upstream, "lease.example.", false)
	if calls != 1 {
		t.Fatalf("upstream calls = %d, want 1 (second query must be a cache hit)", calls)
	}
	if len(first.Answer) != 1 || len(second.Answer) != 1 {
		t.Fatalf("answers: first=%d second=%d, want 1 and 1", len(first.Answer), len(second.Answer))
	}
	hitTTL := second.Answer[0].Header().Ttl
	if hitTTL > uint32(lease/time.Second) {
		t.Fatalf("hit TTL = %d, must not exceed the %v lease", hitTTL, lease)
	}
	if got := first.Answer[0].Header().Ttl; got > uint32(lease/time.Second) {
		t.Fatalf("reply that filled the cache shows TTL %d; the answer was admitted with a lifetime of at most %v (delegation lease) and the next client saw TTL %d",
			got, lease, hitTTL)
	}
}

func TestMissReplyTTLBoundedBySignatureExpiry(t *testing.T) {
	cfg := makeTestConfig()
	defer os.RemoveAll(cfg.Directory)
	c := New(cfg)
	defer c.Stop()

	const sigLeft = 30 * time.Second
	upstream := middleware.HandlerFunc(func(ctx context.Context, ch *middleware.Chain) {
		now := time.Now()
		resp := cutTestMsg("signed.example.", dns.RcodeSuccess, 3600)
		resp.SetReply(ch.Request.Msg())
		resp.AuthenticatedData = true
		resp.Answer = append(cutTestMsg("signed.example.", dns.RcodeSuccess, 3600).Answer, &dns.RRSIG{
			Hdr:         dns.RR_Header{Name: "signed.example.", Rrtype: dns.TypeRRSIG, Class: dns.ClassINET, Ttl: 3600},
			TypeCovered: dns.TypeA,
			Algorithm:   dns.ECDSAP256SHA256,
			Labels:      2,
			OrigTtl:     3600,
			Expiration:  uint32(now.Add(sigLeft).Unix()),
			Inception:   uint32(now.Add(-time.Hour).Unix()),
			KeyTag:      12345,
			SignerName:  "example.",
			Signature:   "c2lnbmF0dXJl",
		})
		_ = ch.Writer.WriteMsg(resp)
		ch.Cancel()
	})

	first := missRelayQuery(t, c, upstream, "signed.example.", true)
	second := missRelayQuery(t, c, upstream, "signed.example.", true)
	hit := maxRecordTTL(second)
	if hit > uint32(sigLeft/time.Second) {
		t.Fatalf("hit TTL = %d, must not exceed the %v left on the signature", hit, sigLeft)
	}
	// RFC 4035 section 5.3.3: a validator hands on an authenticated RRset
	// with a TTL no greater than the time left until its signature expires.
	if got := maxRecordTTL(first); got > uint32(sigLeft/time.Second)+1 {
		t.Fatalf("reply that filled the cache shows TTL %d on an RRset whose signature expires in %v; the next client saw TTL %d",
			got, sigLeft, hit)
	}
}
