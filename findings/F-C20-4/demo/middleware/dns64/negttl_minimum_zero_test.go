package dns64

import (
	"context"
	"testing"

	"github.com/miekg/dns"
)

// RFC 2308 §5: the negative TTL of a NODATA reply is
// min(SOA.MINIMUM, SOA TTL). RFC 6147 §5.1.7: a synthesised AAAA lives
// no longer than min(A TTL, that negative TTL).
//
// An SOA whose MINIMUM field is 0 ("do not cache my negative answers")
// is legal and gives a negative TTL of 0 whatever the SOA's own header
// TTL says. The synthesised AAAA must not outlive it.
func TestSynthesise_TTL_SOAMinimumZeroBoundsSynthTTL(t *testing.T) {
	d := New(baseConfig())
	d.queryer = &stubQueryer{resp: aRespMsg("foo.example.org.", 600, "192.0.2.33")}

	// SOA header TTL 3600, MINIMUM 0 -> negative TTL 0.
	orig := noDataMsg("foo.example.org.", 0)
	soa := orig.Ns[0].(*dns.SOA)
	if soa.Hdr.Ttl != 3600 || soa.Minttl != 0 {
		t.Fatalf("fixture: SOA ttl=%d minimum=%d, want 3600/0", soa.Hdr.Ttl, soa.Minttl)
	}

	ch, mw := makeChain(t, d, &stubAnswerer{msg: orig}, "203.0.113.5:53", "foo.example.org.", dns.TypeAAAA)
	d.ServeDNS(context.Background(), ch)

	resp := mw.Msg()
	if resp == nil || len(resp.Answer) == 0 {
		t.Fatalf("no synthesised answer: %v", resp)
	}
	aaaa, ok := resp.Answer[0].(*dns.AAAA)
	if !ok {
		t.Fatalf("answer[0] is %T, want *dns.AAAA", resp.Answer[0])
	}
	// min(A TTL 600, negative TTL min(3600, 0) = 0) = 0.
	if aaaa.Hdr.Ttl != 0 {
		t.Errorf("synthesised AAAA TTL = %d, want 0: the AAAA negative TTL is min(SOA TTL 3600, SOA MINIMUM 0) = 0, and the synthesised record must not be larger than it", aaaa.Hdr.Ttl)
	}
}

// The function itself: MINIMUM is a bound like the header TTL, at every
// value including zero, and in both orders.
func TestNegativeAAAATTL_IsMinOfHeaderAndMinimum(t *testing.T) {
	cases := []struct {
		hdr, minimum, want uint32
	}{
		{3600, 0, 0},
		{0, 3600, 0},
		{3600, 60, 60},
		{60, 3600, 60},
		{0, 0, 0},
	}
	for _, tc := range cases {
		m := new(dns.Msg)
		m.Ns = []dns.RR{&dns.SOA{
			Hdr:    dns.RR_Header{Name: "example.org.", Rrtype: dns.TypeSOA, Class: dns.ClassINET, Ttl: tc.hdr},
			Ns:     "ns.example.org.",
			Mbox:   "hostmaster.example.org.",
			Minttl: tc.minimum,
		}}
		got, ok := negativeAAAATTL(m)
		if !ok {
			t.Errorf("hdr=%d minimum=%d: SOA reported absent", tc.hdr, tc.minimum)
			continue
		}
		if got != tc.want {
			t.Errorf("hdr=%d minimum=%d: negative TTL = %d, want %d", tc.hdr, tc.minimum, got, tc.want)
		}
	}
}
