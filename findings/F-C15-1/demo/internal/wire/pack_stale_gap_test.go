package wire

import (
	"bytes"
	"net"
	"strings"
	"testing"

	"github.com/miekg/dns"
)

// The library's packers do not write every byte they advance over. packDataA
// is the plain case: for a 16-byte address it does
//
//	copy(msg[off:], a.To4()); off += net.IPv4len
//
// and To4 of an address that is not IPv4-mapped is nil, so nothing is copied
// and the four rdata octets keep whatever the buffer held. dns.Msg.Pack packs
// into a freshly made array, so there the four octets are zero. The pooled
// packer packs into a buffer that still holds the previous message.
//
// The same helper serves A, L32 and the IPv4 gateways of IPSECKEY/AMTRELAY.
// The record is library-owned, Len() accounts for its four octets, the pack
// reports no error — every admission check passes.
func TestTryPackDoesNotExposePreviousMessageThroughUnwrittenRdata(t *testing.T) {
	// What some other client was just sent.
	secret := new(dns.Msg)
	secret.SetQuestion("example.com.", dns.TypeTXT)
	secret.Compress = true
	for range 12 {
		secret.Answer = append(secret.Answer, mustPackRR(t,
			`example.com. 300 IN TXT "`+strings.Repeat("S", 120)+`"`))
	}

	cases := map[string]dns.RR{
		// blocklist.New builds exactly this when `nullroute` is given an
		// IPv6 literal: &dns.A{A: net.ParseIP(cfg.Nullroute)}.
		"A": &dns.A{
			Hdr: dns.RR_Header{Name: "blocked.example.", Rrtype: dns.TypeA, Class: dns.ClassINET, Ttl: 3600},
			A:   net.ParseIP("2001:db8::1"),
		},
		"L32": &dns.L32{
			Hdr:        dns.RR_Header{Name: "blocked.example.", Rrtype: dns.TypeL32, Class: dns.ClassINET, Ttl: 3600},
			Preference: 10,
			Locator32:  net.ParseIP("2001:db8::1"),
		},
	}

	for name, rr := range cases {
		t.Run(name, func(t *testing.T) {
			msg := new(dns.Msg)
			msg.SetQuestion("blocked.example.", rr.Header().Rrtype)
			msg.Response = true
			msg.Compress = true
			msg.Answer = []dns.RR{rr}

			want, err := libraryPack(t, msg)
			if err != nil {
				t.Fatalf("the library refuses the message: %v", err)
			}

			// Several rounds: sync.Pool may hand out a fresh state now and
			// then; one reuse is enough to show the leak.
			for round := range 20 {
				if _, handled := tryPackBytes(t, secret); !handled {
					t.Fatal("the first message fell back")
				}
				got, handled := tryPackBytes(t, msg)
				if !handled {
					// Declining is within the contract: the library packs it.
					return
				}
				if !bytes.Equal(got, want) {
					t.Fatalf("round %d: pooled pack differs from dns.Msg.Pack\n"+
						" pooled:  %x\n library: %x\n"+
						"the rdata octets are the previous message's payload (%q)",
						round, got, want, got[len(got)-4:])
				}
			}
		})
	}
}

// The same defect seen from PackClone, the entry point the cache stores
// bytes through: the stored wire form depends on what the pool last packed.
func TestPackCloneIsAFunctionOfTheMessageAlone(t *testing.T) {
	msg := new(dns.Msg)
	msg.SetQuestion("blocked.example.", dns.TypeA)
	msg.Response = true
	msg.Compress = true
	msg.Answer = []dns.RR{&dns.A{
		Hdr: dns.RR_Header{Name: "blocked.example.", Rrtype: dns.TypeA, Class: dns.ClassINET, Ttl: 3600},
		A:   net.ParseIP("2001:db8::1"),
	}}
	want, err := libraryPack(t, msg)
	if err != nil {
		t.Fatal(err)
	}

	for _, filler := range []string{"X", "Y"} {
		prev := new(dns.Msg)
		prev.SetQuestion("example.com.", dns.TypeTXT)
		for range 4 {
			prev.Answer = append(prev.Answer, mustPackRR(t,
				`example.com. 300 IN TXT "`+strings.Repeat(filler, 200)+`"`))
		}
		for round := range 20 {
			if _, err := PackClone(prev); err != nil {
				t.Fatal(err)
			}
			got, err := PackClone(msg)
			if err != nil {
				t.Fatal(err)
			}
			if !bytes.Equal(got, want) {
				t.Fatalf("after packing %q-filled message, round %d:\n stored:  %x\n library: %x",
					filler, round, got, want)
			}
		}
	}
}
