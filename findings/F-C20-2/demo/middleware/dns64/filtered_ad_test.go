package dns64

import (
	"context"
	"errors"
	"net"
	"testing"

	"github.com/miekg/dns"
)

// validatedMappedAAAA is what a validating resolver hands DNS64 for a signed
// name whose only AAAA is an IPv4-mapped address: NOERROR, AD=1, the AAAA and
// its RRSIG.
func validatedMappedAAAA(qname string) *dns.Msg {
	m := new(dns.Msg)
	m.SetQuestion(qname, dns.TypeAAAA)
	m.Response = true
	m.Rcode = dns.RcodeSuccess
	m.RecursionAvailable = true
	m.AuthenticatedData = true
	m.SetEdns0(4096, true)
	m.Answer = []dns.RR{
		&dns.AAAA{
			Hdr:  dns.RR_Header{Name: qname, Rrtype: dns.TypeAAAA, Class: dns.ClassINET, Ttl: 300},
			AAAA: net.ParseIP("::ffff:10.1.2.3"),
		},
		&dns.RRSIG{
			Hdr:         dns.RR_Header{Name: qname, Rrtype: dns.TypeRRSIG, Class: dns.ClassINET, Ttl: 300},
			TypeCovered: dns.TypeAAAA, Algorithm: dns.ECDSAP256SHA256, Labels: 3, OrigTtl: 300,
			Expiration: 2000000000, Inception: 1000000000, KeyTag: 4242,
			SignerName: "example.org.", Signature: "AAAA",
		},
	}
	return m
}

// TestFilteredReplyNeverCarriesAD: DNS64 removed the (only) AAAA from a
// validated answer. Whatever it then hands the client is no longer the RRset
// the validator vouched for, so AD must be clear — on every way out of
// WriteMsg, including the ones where synthesis does not happen.
func TestFilteredReplyNeverCarriesAD(t *testing.T) {
	const qname = "host.example.org."

	cases := []struct {
		name    string
		queryer *stubQueryer
	}{
		{
			// Well-known prefix: 10.1.2.3 is in exclude_a_networks, so no
			// (A, prefix) pair survives and synthesis is abandoned.
			name:    "every A excluded under the well-known prefix",
			queryer: &stubQueryer{resp: aRespMsg(qname, 300, "10.1.2.3")},
		},
		{
			name:    "secondary A lookup fails",
			queryer: &stubQueryer{err: errors.New("upstream unreachable")},
		},
		{
			name:    "secondary A lookup yields no message",
			queryer: &stubQueryer{},
		},
	}
	for _, tc := range cases {
		t.Run(tc.name, func(t *testing.T) {
			d := New(baseConfig())
			d.queryer = tc.queryer
			downstream := &stubAnswerer{msg: validatedMappedAAAA(qname)}
			ch, mw := makeChain(t, d, downstream, "203.0.113.5:53", qname, dns.TypeAAAA)

			d.ServeDNS(context.Background(), ch)
			if !mw.Written() {
				t.Fatal("nothing written")
			}
			resp := mw.Msg()
			for _, rr := range resp.Answer {
				if aaaa, ok := rr.(*dns.AAAA); ok {
					t.Fatalf("fixture: the mapped AAAA %s should have been filtered", aaaa.AAAA)
				}
			}
			t.Logf("client got rcode=%s AD=%v answer=%d RR(s)",
				dns.RcodeToString[resp.Rcode], resp.AuthenticatedData, len(resp.Answer))
			if resp.AuthenticatedData {
				t.Errorf("AAAA-filtered reply carries AD=1: the validated RRset was %q, the client got it without the AAAA",
					"host.example.org. AAAA ::ffff:10.1.2.3 + RRSIG")
			}
		})
	}
}
