package resolver

import (
	"context"
	"net"
	"sync/atomic"
	"testing"
	"time"

	"github.com/miekg/dns"
	"github.com/semihalev/sdns/config"
	"github.com/semihalev/sdns/internal/mock"
	"github.com/semihalev/sdns/middleware"
	cachemw "github.com/semihalev/sdns/middleware/cache"
	"github.com/semihalev/sdns/middleware/edns"
)

// startECSAuth is startMockAuth for an authority that reads the query's OPT:
// the handler sees the whole request and returns the whole reply.
func startECSAuth(t *testing.T, handle func(r *dns.Msg) *dns.Msg) (string, func()) {
	t.Helper()
	pc, err := net.ListenPacket("udp", "127.0.0.1:0")
	if err != nil {
		t.Fatalf("listen udp: %v", err)
	}
	mux := dns.NewServeMux()
	mux.HandleFunc(".", func(w dns.ResponseWriter, r *dns.Msg) {
		if len(r.Question) != 1 {
			return
		}
		_ = w.WriteMsg(handle(r))
	})
	s := &dns.Server{Net: "udp", PacketConn: pc, Handler: mux}
	go func() { _ = s.ActivateAndServe() }()
	time.Sleep(10 * time.Millisecond)
	return pc.LocalAddr().String(), func() { _ = s.Shutdown() }
}

func querySubnet(r *dns.Msg) *dns.EDNS0_SUBNET {
	opt := r.IsEdns0()
	if opt == nil {
		return nil
	}
	for _, o := range opt.Option {
		if sub, ok := o.(*dns.EDNS0_SUBNET); ok {
			return sub
		}
	}
	return nil
}

// An authority that tailors cdn.geo. to the client subnet it is told about and
// says so (SCOPE = SOURCE = /24) must have that answer kept to that subnet.
// The iterative resolver replaced the authority's OPT with the request's own
// (SCOPE 0) on every positive answer, so the cache filed the /24 answer under
// the shared key and handed it to every other subnet — and to clients that
// sent no ECS at all.
func TestHuntC03_AuthorityScopeSurvivesIterativeResolution(t *testing.T) {
	var geoQueries atomic.Int64

	geoAddr, stopGeo := startECSAuth(t, func(r *dns.Msg) *dns.Msg {
		q := r.Question[0]
		m := new(dns.Msg)
		m.SetReply(r)
		m.Authoritative = true
		if dns.CanonicalName(q.Name) != "cdn.geo." || q.Qtype != dns.TypeA {
			m.Ns = []dns.RR{mustRR(t, "geo. 30 IN SOA ns.geo. hostmaster.geo. 1 30 30 30 30")}
			return m
		}
		geoQueries.Add(1)
		answer := "10.0.0.9" // nobody told us where the client is
		sub := querySubnet(r)
		if sub != nil {
			switch sub.Address.String() {
			case "203.0.113.0":
				answer = "10.0.0.1"
			case "198.51.100.0":
				answer = "10.0.0.2"
			}
		}
		m.Answer = []dns.RR{mustRR(t, "cdn.geo. 300 IN A "+answer)}
		if sub != nil {
			m.SetEdns0(dns.DefaultMsgSize, false)
			m.IsEdns0().Option = []dns.EDNS0{&dns.EDNS0_SUBNET{
				Code: dns.EDNS0SUBNET, Family: sub.Family,
				SourceNetmask: sub.SourceNetmask, SourceScope: sub.SourceNetmask,
				Address: sub.Address,
			}}
		}
		return m
	})
	defer stopGeo()

	rootAddr, stopRoot := startECSAuth(t, func(r *dns.Msg) *dns.Msg {
		q := r.Question[0]
		name := dns.CanonicalName(q.Name)
		m := new(dns.Msg)
		m.SetReply(r)
		switch {
		case name == "." && q.Qtype == dns.TypeNS:
			m.Authoritative = true
			m.Answer = []dns.RR{mustRR(t, ". 3600 IN NS a.root.")}
		case q.Qtype != dns.TypeDS && dns.IsSubDomain("geo.", name):
			m.Ns = []dns.RR{mustRR(t, "geo. 3600 IN NS ns.geo.")}
			m.Extra = []dns.RR{mustRR(t, "ns.geo. 3600 IN A 192.0.2.31")}
		default:
			m.Authoritative = true
			m.Ns = []dns.RR{mustRR(t, ". 30 IN SOA a.root. hostmaster.root. 1 30 30 30 30")}
		}
		return m
	})
	defer stopRoot()

	remap := map[string]string{"192.0.2.31:53": geoAddr}
	mapper := func(addr string) string {
		if to, ok := remap[addr]; ok {
			return to
		}
		return addr
	}

	base := makeTestConfig()
	cfg := *base
	cfg.RootServers = []string{rootAddr}
	cfg.Root6Servers = nil
	cfg.DNSSEC = "off"
	cfg.CacheSize = 1024
	cfg.Prefetch = 0
	cfg.RateLimit = 0
	cfg.ECS = config.ECSConfig{Enabled: true, ForwardV4Max: 24, ForwardV6Max: 56}

	h := New(&cfg)
	h.resolver.resolveTarget.Store(&mapper)

	em := edns.New(&cfg)
	cm := cachemw.New(&cfg)
	defer cm.Stop()
	sub := &chainQueryer{handlers: []middleware.Handler{h}}
	cm.SetQueryer(sub)
	cm.SetPrefetchQueryer(sub)

	ask := func(label, clientIP, subnet string) string {
		t.Helper()
		req := new(dns.Msg)
		req.SetQuestion("cdn.geo.", dns.TypeA)
		req.SetEdns0(dns.DefaultMsgSize, false)
		if subnet != "" {
			req.IsEdns0().Option = []dns.EDNS0{&dns.EDNS0_SUBNET{
				Code: dns.EDNS0SUBNET, Family: 1, SourceNetmask: 24,
				Address: net.ParseIP(subnet).To4(),
			}}
		}
		w := mock.NewWriter("udp", clientIP+":0")
		ch := middleware.NewChain([]middleware.Handler{em, cm, h})
		ch.Reset(w, req)
		ch.Next(context.Background())
		if !w.Written() {
			t.Fatalf("%s: no response written", label)
		}
		resp := w.Msg()
		if resp.Rcode != dns.RcodeSuccess {
			t.Fatalf("%s: rcode %s", label, dns.RcodeToString[resp.Rcode])
		}
		for _, rr := range resp.Answer {
			if a, ok := rr.(*dns.A); ok {
				return a.A.String()
			}
		}
		t.Fatalf("%s: no A record in %v", label, resp.Answer)
		return ""
	}

	if got := ask("client A", "203.0.113.5", "203.0.113.0"); got != "10.0.0.1" {
		t.Fatalf("client A: got %s, want 10.0.0.1", got)
	}
	if n := geoQueries.Load(); n != 1 {
		t.Fatalf("client A: authority asked %d times, want 1", n)
	}

	// Same subnet again: the scoped entry serves it.
	if got := ask("client A again", "203.0.113.77", "203.0.113.0"); got != "10.0.0.1" {
		t.Errorf("client A again: got %s, want 10.0.0.1", got)
	}
	if n := geoQueries.Load(); n != 1 {
		t.Errorf("client A again: authority asked %d times, want 1 (scoped hit)", n)
	}

	// Another subnet: outside the scope the authority gave, so a miss.
	if got := ask("client B", "198.51.100.5", "198.51.100.0"); got != "10.0.0.2" {
		t.Errorf("client B (198.51.100.0/24) was served %s, the answer the authority scoped to 203.0.113.0/24; want 10.0.0.2", got)
	}

	// No ECS at all: the /24 answer is not this client's either.
	if got := ask("client C", "192.0.2.200", ""); got != "10.0.0.9" {
		t.Errorf("client C (no ECS) was served %s, the answer the authority scoped to a /24; want 10.0.0.9", got)
	}
}
