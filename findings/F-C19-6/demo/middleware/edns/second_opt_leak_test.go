package edns

import (
	"context"
	"net"
	"testing"

	"github.com/miekg/dns"
	"github.com/semihalev/sdns/config"
	"github.com/semihalev/sdns/internal/mock"
	"github.com/semihalev/sdns/middleware"
)

// TestEDNS_NoUpstreamOPTSurvivesBesideTheClientFacingOne: an upstream reply is
// relayed whole (the forwarder writes the upstream message as it came; the
// resolver keeps an authority's additional section on negative replies). The
// reply here carries two OPT records, the first with a client-subnet option
// and the upstream hop's cookie. That is a shape the wire codec accepts — the
// test round-trips it through Pack/Unpack first — so it is a shape an
// upstream can deliver. The client must get one OPT, rebuilt for it, and no
// client-subnet option anywhere.
func TestEDNS_NoUpstreamOPTSurvivesBesideTheClientFacingOne(t *testing.T) {
	cfg := new(config.Config)
	cfg.ECS = config.ECSConfig{Enabled: true, ForwardV4Max: 24}
	e := New(cfg)

	upstream := middleware.HandlerFunc(func(ctx context.Context, ch *middleware.Chain) {
		req := ch.Request.Msg()
		resp := new(dns.Msg)
		resp.SetReply(req)

		first := &dns.OPT{Hdr: dns.RR_Header{Name: ".", Rrtype: dns.TypeOPT}}
		first.SetUDPSize(1232)
		first.Option = []dns.EDNS0{
			&dns.EDNS0_SUBNET{
				Code: dns.EDNS0SUBNET, Family: 1,
				SourceNetmask: 24, SourceScope: 24,
				Address: net.ParseIP("203.0.113.0").To4(),
			},
			&dns.EDNS0_COOKIE{Code: dns.EDNS0COOKIE, Cookie: "0102030405060708a1a2a3a4a5a6a7a8"},
		}
		second := &dns.OPT{Hdr: dns.RR_Header{Name: ".", Rrtype: dns.TypeOPT}}
		second.SetUDPSize(1232)
		resp.Extra = []dns.RR{first, second}

		// What arrives from an upstream is what the codec decodes.
		wire, err := resp.Pack()
		if err != nil {
			t.Fatalf("pack upstream reply: %v", err)
		}
		relayed := new(dns.Msg)
		if err := relayed.Unpack(wire); err != nil {
			t.Fatalf("unpack upstream reply: %v", err)
		}
		_ = ch.Writer.WriteMsg(relayed)
	})
	ch := middleware.NewChain([]middleware.Handler{e, upstream})

	req := ecsRequest("example.com.", 24, "203.0.113.0")
	mw := mock.NewWriter("udp", "203.0.113.5:0")
	ch.Reset(mw, req)
	ch.Next(context.Background())

	written := mw.Msg()
	if written == nil {
		t.Fatal("no response written")
	}
	// Judge what the client decodes, not the in-memory message.
	wire, err := written.Pack()
	if err != nil {
		t.Fatalf("pack client reply: %v", err)
	}
	got := new(dns.Msg)
	if err := got.Unpack(wire); err != nil {
		t.Fatalf("unpack client reply: %v", err)
	}

	opts := 0
	for _, rr := range got.Extra {
		opt, ok := rr.(*dns.OPT)
		if !ok {
			continue
		}
		opts++
		for _, o := range opt.Option {
			switch v := o.(type) {
			case *dns.EDNS0_SUBNET:
				t.Errorf("client reply carries a client-subnet option: %s", v.String())
			case *dns.EDNS0_COOKIE:
				t.Errorf("client reply carries the upstream hop's cookie: %s", v.Cookie)
			}
		}
	}
	if opts != 1 {
		t.Errorf("client reply carries %d OPT records, want 1", opts)
	}
}
