package resolver

import (
	"crypto"
	"net"
	"os"
	"sync"
	"testing"
	"time"

	"github.com/miekg/dns"
	"github.com/semihalev/sdns/config"
	"github.com/semihalev/sdns/internal/authority"
	"github.com/semihalev/sdns/middleware"
	"github.com/semihalev/sdns/middleware/resolver/dnssec"
)

// urKSK is one root key-signing key of the scripted root used below.
type urKSK struct {
	key    *dns.DNSKEY
	signer crypto.Signer
}

func urNewKSK(t *testing.T) urKSK {
	t.Helper()
	key := &dns.DNSKEY{
		Hdr:       dns.RR_Header{Name: rootzone, Rrtype: dns.TypeDNSKEY, Class: dns.ClassINET, Ttl: 3600},
		Flags:     dns.ZONE | dns.SEP,
		Protocol:  3,
		Algorithm: dns.ED25519,
	}
	priv, err := key.Generate(256)
	if err != nil {
		t.Fatalf("generate DNSKEY: %v", err)
	}
	return urKSK{key: key, signer: priv.(crypto.Signer)}
}

func (k urKSK) revoked() *dns.DNSKEY {
	r := *k.key
	r.Flags |= DNSKEYFlagRevoke
	return &r
}

// urSign signs set with signer as the record `as` (the plain or the revoked
// form of the key: the two have different key tags).
func urSign(t *testing.T, as *dns.DNSKEY, signer crypto.Signer, set []dns.RR) *dns.RRSIG {
	t.Helper()
	now := time.Now()
	sig := &dns.RRSIG{
		Hdr:         dns.RR_Header{Name: rootzone, Rrtype: dns.TypeRRSIG, Class: dns.ClassINET, Ttl: 3600},
		TypeCovered: dns.TypeDNSKEY,
		Algorithm:   as.Algorithm,
		OrigTtl:     3600,
		Expiration:  uint32(now.Add(24 * time.Hour).Unix()), //nolint:gosec // test timestamp
		Inception:   uint32(now.Add(-time.Hour).Unix()),     //nolint:gosec // test timestamp
		KeyTag:      as.KeyTag(),
		SignerName:  rootzone,
	}
	if err := sig.Sign(signer, set); err != nil {
		t.Fatalf("sign DNSKEY RRset: %v", err)
	}
	return sig
}

// urRoot is a loopback "root server" that answers ". DNSKEY" with whatever
// the test scripted for the current refresh.
type urRoot struct {
	mu     sync.Mutex
	answer []dns.RR
}

func (s *urRoot) publish(rrs ...dns.RR) {
	s.mu.Lock()
	s.answer = rrs
	s.mu.Unlock()
}

func (s *urRoot) ServeDNS(w dns.ResponseWriter, req *dns.Msg) {
	resp := new(dns.Msg)
	resp.SetReply(req)
	resp.Authoritative = true
	if req.Question[0].Name == rootzone && req.Question[0].Qtype == dns.TypeDNSKEY {
		s.mu.Lock()
		for _, rr := range s.answer {
			resp.Answer = append(resp.Answer, dns.Copy(rr))
		}
		s.mu.Unlock()
	}
	_ = w.WriteMsg(resp)
}

func urStartRoot(t *testing.T) (*urRoot, string) {
	t.Helper()
	pc, err := net.ListenPacket("udp", "127.0.0.1:0")
	if err != nil {
		t.Fatalf("listen: %v", err)
	}
	root := &urRoot{}
	started := make(chan struct{})
	srv := &dns.Server{PacketConn: pc, Handler: root, NotifyStartedFunc: func() { close(started) }}
	go func() { _ = srv.ActivateAndServe() }()
	<-started
	t.Cleanup(func() { _ = srv.Shutdown() })
	return root, pc.LocalAddr().String()
}

// urNewResolver builds a resolver the way NewResolver does, minus the
// background goroutine, so the test drives every AutoTA refresh itself.
func urNewResolver(dir, rootAddr string, configured ...*dns.DNSKEY) *Resolver {
	cfg := &config.Config{
		DNSSEC:               "on",
		Maxdepth:             30,
		MaxConcurrentQueries: 16,
		Timeout:              config.Duration{Duration: 2 * time.Second},
		Directory:            dir,
	}
	workPolicy := middleware.MustRecursionWorkPolicyFromConfig(cfg.RecursionFirewall)
	servers := &authority.Servers{Zone: rootzone}
	servers.List = append(servers.List, authority.NewServer(rootAddr, authority.IPv4))

	r := &Resolver{
		cfg:             cfg,
		delegations:     authority.NewCache(),
		rootServers:     servers,
		dnssec:          true,
		netTimeout:      2 * time.Second,
		workPolicy:      workPolicy,
		sfGroup:         NewSingleflightWrapper(),
		circuitBreaker:  newCircuitBreaker(),
		cryptoLimiter:   dnssec.NewCryptoLimiter(workPolicy.MaxConcurrentCrypto),
		maxConcurrent:   make(chan struct{}, cfg.MaxConcurrentQueries),
		resolutionSlots: make(chan struct{}, cfg.MaxConcurrentQueries),
		zoneInflight:    newZoneInflightLimiter(16),
		probeSlots:      make(chan struct{}, maxInflightProbes),
	}
	for _, k := range configured {
		r.configuredRootKeys = append(r.configuredRootKeys, k)
	}
	r.rootKeys = startupTrustAnchors(dir, append([]dns.RR(nil), r.configuredRootKeys...))
	return r
}

func urTrusts(r *Resolver, k *dns.DNSKEY) bool {
	r.RLock()
	defer r.RUnlock()
	for _, rr := range r.rootKeys {
		if dk, ok := rr.(*dns.DNSKEY); ok && dnskeyMaterialFP(dk) == dnskeyMaterialFP(k) {
			return true
		}
	}
	return false
}

// A revocation AutoTA accepted but could record in neither state file puts
// the resolver in fail-closed mode. The next refresh must still know about
// it: the state file on disk names the key as a Valid anchor, and the
// revocation exists nowhere but in this process.
//
// History:
//
//	refresh 1  root publishes {OLD, NEW} signed by both       -> both trusted, state written
//	refresh 2  root publishes {OLD+REVOKE, NEW}, self-signed  -> revocation accepted; the
//	           state directory is gone for this refresh (volume briefly unavailable),
//	           so neither the tombstone nor the state marker lands -> fail closed
//	refresh 3  directory is back; the root has withdrawn the revoked key and
//	           publishes {NEW} signed by NEW                   -> OLD must not be trusted
func TestAutoTAUnpersistedRevocationIsRememberedByTheNextRefresh(t *testing.T) {
	base := t.TempDir()
	dir := base + "/state"
	if err := os.Mkdir(dir, 0o750); err != nil {
		t.Fatal(err)
	}

	oldKSK, newKSK := urNewKSK(t), urNewKSK(t)
	for oldKSK.key.KeyTag() == newKSK.key.KeyTag() || oldKSK.revoked().KeyTag() == newKSK.key.KeyTag() {
		newKSK = urNewKSK(t)
	}
	root, addr := urStartRoot(t)
	r := urNewResolver(dir, addr, oldKSK.key, newKSK.key)

	// Refresh 1: ordinary publication, everything persists.
	set1 := []dns.RR{oldKSK.key, newKSK.key}
	root.publish(oldKSK.key, newKSK.key, urSign(t, oldKSK.key, oldKSK.signer, set1), urSign(t, newKSK.key, newKSK.signer, set1))
	r.AutoTA()
	if !urTrusts(r, oldKSK.key) || !urTrusts(r, newKSK.key) {
		t.Fatalf("precondition: both configured anchors must be trusted after refresh 1")
	}

	// Refresh 2: OLD is revoked (self-signed, co-signed by NEW) while the
	// state directory cannot be reached: both writes fail.
	set2 := []dns.RR{oldKSK.revoked(), newKSK.key}
	root.publish(oldKSK.revoked(), newKSK.key, urSign(t, oldKSK.revoked(), oldKSK.signer, set2), urSign(t, newKSK.key, newKSK.signer, set2))
	if err := os.Rename(dir, dir+".offline"); err != nil {
		t.Fatal(err)
	}
	r.AutoTA()
	if r.hasTrustAnchors() {
		t.Fatalf("precondition: a new revocation that reached neither file must fail closed")
	}

	// Refresh 3: storage is back with what refresh 1 wrote (OLD = Valid, no
	// tombstone). The root no longer publishes the revoked key.
	if err := os.Rename(dir+".offline", dir); err != nil {
		t.Fatal(err)
	}
	set3 := []dns.RR{newKSK.key}
	root.publish(newKSK.key, urSign(t, newKSK.key, newKSK.signer, set3))
	r.AutoTA()

	if !urTrusts(r, newKSK.key) {
		t.Fatalf("the surviving anchor should be trusted again once a write lands")
	}
	if urTrusts(r, oldKSK.key) {
		t.Fatalf("key %d was revoked in refresh 2 (accepted, self-signed) and is published as a trust anchor again after refresh 3", oldKSK.key.KeyTag())
	}

	// And the revocation must now be durable: a restart must not bring it back.
	restarted := urNewResolver(dir, addr, oldKSK.key, newKSK.key)
	if urTrusts(restarted, oldKSK.key) {
		t.Fatalf("revoked key %d is trusted again after a restart", oldKSK.key.KeyTag())
	}
}
