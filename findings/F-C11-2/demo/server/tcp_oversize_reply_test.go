package server

import (
	"context"
	"encoding/binary"
	"io"
	"net"
	"strings"
	"testing"
	"time"

	"github.com/miekg/dns"
	"github.com/semihalev/sdns/config"
	"github.com/semihalev/sdns/middleware"
	"github.com/semihalev/sdns/middleware/cache"
	"github.com/semihalev/sdns/middleware/edns"
)

// aliasToHugeAuthority plays the resolver at the bottom of the pipeline. Each
// of its replies is a legal DNS message on its own:
//
//	alias.<a..>.huge.  TXT -> CNAME target.<x..>.huge.   (under 200 bytes)
//	target.<x..>.huge. TXT -> one TXT RR, 65,520 bytes   (fits a TCP frame)
//
// The cache middleware above it chases the alias and splices the target's
// records into the client's reply, which is then a few bytes over what a
// two-byte length prefix can frame.
type aliasToHugeAuthority struct{}

func (aliasToHugeAuthority) Name() string { return "alias-to-huge-authority" }

const hugeTXTStrings = 255 // 255 strings x 256 bytes = 65,280 bytes of rdata

var (
	hugeAlias  = "alias." + strings.Repeat("a", 60) + ".huge."
	hugeTarget = "target." + strings.Repeat("x", 60) + ".huge."
)

func (aliasToHugeAuthority) ServeDNS(ctx context.Context, ch *middleware.Chain) {
	_, req := ch.Materialize(ctx)
	if req == nil {
		return
	}
	q := req.Question[0]
	resp := new(dns.Msg)
	resp.SetReply(req)
	resp.RecursionAvailable = true
	switch dns.CanonicalName(q.Name) {
	case hugeAlias:
		resp.Answer = []dns.RR{&dns.CNAME{
			Hdr:    dns.RR_Header{Name: q.Name, Rrtype: dns.TypeCNAME, Class: dns.ClassINET, Ttl: 300},
			Target: hugeTarget,
		}}
	case hugeTarget:
		if q.Qtype == dns.TypeTXT {
			txt := make([]string, hugeTXTStrings, hugeTXTStrings+1)
			for i := range txt {
				txt[i] = strings.Repeat("t", 255)
			}
			txt = append(txt, strings.Repeat("u", 135))
			resp.Answer = []dns.RR{&dns.TXT{
				Hdr: dns.RR_Header{Name: q.Name, Rrtype: dns.TypeTXT, Class: dns.ClassINET, Ttl: 300},
				Txt: txt,
			}}
		}
	}
	_ = ch.Writer.WriteMsg(resp)
	ch.Cancel()
}

// An admitted TCP query must get exactly one reply. Which reply an answer
// that cannot be framed turns into (TC=1, SERVFAIL) is the server's choice;
// saying nothing until the client gives up is not one of the options.
func TestTCPReplyLargerThanAFrameStillAnswers(t *testing.T) {
	middleware.Reset()
	t.Cleanup(middleware.Reset)
	middleware.Register("edns", func(cfg *config.Config) middleware.Handler { return edns.New(cfg) })
	middleware.Register("cache", func(cfg *config.Config) middleware.Handler { return cache.New(cfg) })
	middleware.Register("alias-to-huge-authority", func(*config.Config) middleware.Handler { return aliasToHugeAuthority{} })
	cfg := &config.Config{Bind: "127.0.0.1:0", CacheSize: 1024, Expire: 600}
	cfg.QueryTimeout.Duration = 2 * time.Second
	middleware.Setup(cfg)
	srv := New(cfg)

	addr, _, stop := startTCPEngine(t, srv, 8)
	defer stop()

	ask := func(name string) (*dns.Msg, int, error) {
		conn, err := net.Dial("tcp", addr)
		if err != nil {
			t.Fatal(err)
		}
		defer conn.Close()
		q := new(dns.Msg)
		q.SetQuestion(name, dns.TypeTXT)
		q.SetEdns0(1232, false)
		wireQ, err := q.Pack()
		if err != nil {
			t.Fatal(err)
		}
		writeFrame(t, conn, wireQ)

		// Twice the configured query timeout: far beyond "timeout plus a
		// small scheduling margin".
		_ = conn.SetReadDeadline(time.Now().Add(2 * cfg.QueryTimeout.Duration))
		var prefix [2]byte
		if _, err := io.ReadFull(conn, prefix[:]); err != nil {
			return nil, 0, err
		}
		body := make([]byte, binary.BigEndian.Uint16(prefix[:]))
		if _, err := io.ReadFull(conn, body); err != nil {
			return nil, 0, err
		}
		resp := new(dns.Msg)
		if err := resp.Unpack(body); err != nil {
			t.Fatalf("unpack reply for %s: %v", name, err)
		}
		return resp, len(body), nil
	}

	// Control: the target on its own is a legal, frameable reply.
	target, targetLen, err := ask(hugeTarget)
	if err != nil {
		t.Fatalf("control query for the target itself got no reply: %v", err)
	}
	t.Logf("control: the target's own reply is %d bytes on the wire", targetLen)
	if len(target.Answer) != 1 {
		t.Fatalf("control: want the TXT RRset, got %d answers rcode=%s",
			len(target.Answer), dns.RcodeToString[target.Rcode])
	}

	resp, _, err := ask(hugeAlias)
	if err != nil {
		t.Fatalf("admitted TCP query for the alias (TXT) received NO reply within twice the "+
			"query timeout (%v): the composed alias+target answer exceeds 65,535 bytes, "+
			"the transport refuses the frame, and the refusal is swallowed", err)
	}
	t.Logf("reply: rcode=%s tc=%v answers=%d", dns.RcodeToString[resp.Rcode], resp.Truncated, len(resp.Answer))
}
