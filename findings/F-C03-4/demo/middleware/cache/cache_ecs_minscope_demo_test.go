package cache

import (
	"os"
	"testing"
)

// An answer the authority scoped to one client /24 must only be served to
// clients inside that /24. With the documented "storage floor" knob set
// coarser than the forwarding ceiling (forward_v4 = 24, min_scope_v4 = 16)
// the cache must refuse to store the /24-scoped answer ("refuse to key the
// cache on scopes narrower than these") - it must not re-file it under the
// enclosing /16, where every other /24 of that /16 would receive it.
func TestECSCache_MinScopeDoesNotWidenAuthorityScope(t *testing.T) {
	cfg := makeECSTestConfig(t)
	cfg.ECS.ForwardV4Max = 24
	cfg.ECS.MinScopeV4 = 16
	defer os.RemoveAll(cfg.Directory)
	c := New(cfg)
	defer c.Stop()

	// The authority tailors its answer per /24 and says so (SCOPE = 24).
	h := &echoHandler{aRecord: "10.0.0.1", scopeBits: 24}

	respA := sendAndExpect(t, c, h,
		reqWithECS("geo.example.", 1, 24, "203.0.113.0"), "203.0.113.5")
	if got := answerA(respA); got != "10.0.0.1" {
		t.Fatalf("client A answer = %q, want 10.0.0.1", got)
	}
	if h.Calls() != 1 {
		t.Fatalf("upstream calls after client A = %d, want 1", h.Calls())
	}

	// Client B sits in another /24 of the same /16. The authority has a
	// different answer for it; the /24-scoped answer obtained for client A
	// is not B's to receive.
	h.aRecord = "10.0.0.2"
	respB := sendAndExpect(t, c, h,
		reqWithECS("geo.example.", 1, 24, "203.0.5.0"), "203.0.5.9")
	if got := answerA(respB); got != "10.0.0.2" {
		t.Errorf("client B (203.0.5.0/24) got %q: the answer the authority scoped to 203.0.113.0/24; want its own 10.0.0.2", got)
	}
	if h.Calls() != 2 {
		t.Errorf("upstream calls after client B = %d, want 2 (B is outside the authority's /24 scope and must not hit)", h.Calls())
	}

	// Same with IPv6: forward_v6 = 56, min_scope_v6 = 48.
	cfg6 := makeECSTestConfig(t)
	cfg6.ECS.ForwardV6Max = 56
	cfg6.ECS.MinScopeV6 = 48
	defer os.RemoveAll(cfg6.Directory)
	c6 := New(cfg6)
	defer c6.Stop()

	h6 := &echoHandler{aRecord: "10.6.0.1", scopeBits: 56}
	_ = sendAndExpect(t, c6, h6,
		reqWithECS("geo6.example.", 2, 56, "2001:db8:0:100::"), "[2001:db8:0:100::5]")
	h6.aRecord = "10.6.0.2"
	resp6 := sendAndExpect(t, c6, h6,
		reqWithECS("geo6.example.", 2, 56, "2001:db8:0:200::"), "[2001:db8:0:200::9]")
	if got := answerA(resp6); got != "10.6.0.2" {
		t.Errorf("v6 client in 2001:db8:0:200::/56 got %q: the answer scoped to 2001:db8:0:100::/56", got)
	}
}
