package cache

import (
	"context"
	"net"
	"os"
	"sync"
	"testing"

	"github.com/miekg/dns"
	"github.com/semihalev/sdns/middleware"
)

// misEchoHandler is an upstream whose ECS option does not echo the query's
// (RFC 7871 §7.3: such a response is invalid). The first answer is tailored to
// whoever asked, but the option on it names echoAddr/echoBits — a different
// audience. Later answers are well-formed.
type misEchoHandler struct {
	mu       sync.Mutex
	calls    int
	aRecord  string
	echoAddr string // "" = echo the query's own address (well-formed)
	family   uint16
	echoBits uint8
}

func (h *misEchoHandler) Name() string { return "misecho" }

func (h *misEchoHandler) Calls() int {
	h.mu.Lock()
	defer h.mu.Unlock()
	return h.calls
}

func (h *misEchoHandler) ServeDNS(_ context.Context, ch *middleware.Chain) {
	h.mu.Lock()
	h.calls++
	aRecord, echoAddr, family, bits := h.aRecord, h.echoAddr, h.family, h.echoBits
	h.mu.Unlock()

	req := ch.Request.Msg()
	if echoAddr == "" {
		_ = ch.Writer.WriteMsg(reply(req, aRecord, bits))
		return
	}
	m := new(dns.Msg)
	m.SetReply(req)
	m.Answer = []dns.RR{makeRR(req.Question[0].Name + " 300 IN A " + aRecord)}
	o := new(dns.OPT)
	o.Hdr.Name = "."
	o.Hdr.Rrtype = dns.TypeOPT
	addr := net.ParseIP(echoAddr)
	if family == 1 {
		addr = addr.To4()
	}
	o.Option = []dns.EDNS0{&dns.EDNS0_SUBNET{
		Code: dns.EDNS0SUBNET, Family: family,
		SourceNetmask: bits, SourceScope: bits, Address: addr,
	}}
	m.Extra = []dns.RR{o}
	_ = ch.Writer.WriteMsg(m)
}

// An answer obtained for the audience 203.0.113.0/24 must never be filed under
// a scope that audience is not part of. The upstream's ECS option names
// 198.51.100.0/24 instead of echoing the query; the cache believed the option
// and stored client A's answer for client B's subnet.
func TestHuntC03_MisEchoedScopeDoesNotCrossAudiences(t *testing.T) {
	for _, tc := range []struct {
		name     string
		family   uint16
		echoAddr string
		bits     uint8
		bReq     *dns.Msg
		bIP      string
	}{
		{
			name: "other v4 subnet", family: 1, echoAddr: "198.51.100.0", bits: 24,
			bReq: reqWithECS("geo.example.", 1, 24, "198.51.100.0"), bIP: "198.51.100.5",
		},
		{
			name: "other family", family: 2, echoAddr: "2001:db8:aa::", bits: 48,
			bReq: reqWithECS("geo.example.", 2, 56, "2001:db8:aa:bb00::"), bIP: "[2001:db8:aa:bb00::5]",
		},
	} {
		t.Run(tc.name, func(t *testing.T) {
			cfg := makeECSTestConfig(t)
			defer os.RemoveAll(cfg.Directory)
			c := New(cfg)
			defer c.Stop()

			h := &misEchoHandler{
				aRecord: "10.0.0.1", echoAddr: tc.echoAddr, family: tc.family, echoBits: tc.bits,
			}

			// Client A, 203.0.113.0/24: the answer is A's, the option is not.
			respA := sendAndExpect(t, c, h, reqWithECS("geo.example.", 1, 24, "203.0.113.0"), "203.0.113.5")
			if got := answerA(respA); got != "10.0.0.1" {
				t.Fatalf("client A: got %q, want 10.0.0.1", got)
			}
			if h.Calls() != 1 {
				t.Fatalf("client A: upstream calls = %d, want 1", h.Calls())
			}

			// The upstream behaves from here on and would give B its own answer.
			h.mu.Lock()
			h.aRecord, h.echoAddr, h.echoBits = "10.0.0.2", "", tc.bits
			h.mu.Unlock()

			respB := sendAndExpect(t, c, h, tc.bReq, tc.bIP)
			if got := answerA(respB); got != "10.0.0.2" {
				t.Errorf("client B (%s) was served %q, the answer obtained for 203.0.113.0/24; want its own 10.0.0.2", tc.bIP, got)
			}
			if h.Calls() != 2 {
				t.Errorf("client B: upstream calls = %d, want 2 (B's question must be a miss)", h.Calls())
			}
		})
	}
}
