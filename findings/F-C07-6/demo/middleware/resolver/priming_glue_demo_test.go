package resolver

import (
	"net/netip"
	"testing"

	"github.com/miekg/dns"
)

// Root priming (RFC 8109) replaces the root server list with the addresses
// found in the additional section of the ". NS" reply. That section is glue:
// it is unsigned even when the NS RRset validates. Every other route that
// turns an address record into an upstream (checkGlueRR, searchAddrs) runs
// it through usableAddr, so a loopback, unspecified or local-interface
// address never becomes a nameserver. checkPriming does not.
func TestRootPrimingGlueIsFilteredLikeAnyOtherGlue(t *testing.T) {
	var hits int64
	rootAddr, stop := startMockAuth(t, &hits, func(q dns.Question) *dns.Msg {
		m := &dns.Msg{}
		m.Authoritative = true
		if q.Name == "." && q.Qtype == dns.TypeNS {
			m.Answer = []dns.RR{
				mustRR(t, ". 518400 IN NS a.root-servers.net."),
				mustRR(t, ". 518400 IN NS b.root-servers.net."),
			}
			m.Extra = []dns.RR{
				mustRR(t, "a.root-servers.net. 518400 IN A 198.41.0.4"),
				mustRR(t, "a.root-servers.net. 518400 IN A 127.0.0.53"),
				mustRR(t, "b.root-servers.net. 518400 IN A 0.0.0.0"),
				mustRR(t, "b.root-servers.net. 518400 IN AAAA ::1"),
				mustRR(t, "b.root-servers.net. 518400 IN AAAA ::ffff:127.0.0.1"),
			}
			return m
		}
		m.Rcode = dns.RcodeRefused
		return m
	})
	defer stop()

	cfg := makeTestConfig()
	cfg.RootServers = []string{rootAddr}
	cfg.Root6Servers = nil
	cfg.DNSSEC = "off"
	r := newWiredTestResolver(cfg)

	r.checkPriming()
	if hits == 0 {
		t.Fatal("the priming query never reached the configured root")
	}

	r.rootServers.RLock()
	list := append([]string(nil), func() []string {
		out := make([]string, 0, len(r.rootServers.List))
		for _, s := range r.rootServers.List {
			out = append(out, s.Addr)
		}
		return out
	}()...)
	r.rootServers.RUnlock()

	primed := false
	for _, a := range list {
		ap, err := netip.ParseAddrPort(a)
		if err != nil {
			t.Fatalf("unparsable root server address %q", a)
		}
		if a == rootAddr {
			// The operator's own configured root: priming did not run or
			// did not replace the list.
			continue
		}
		addr := ap.Addr().Unmap()
		if addr.IsLoopback() || addr.IsUnspecified() {
			t.Errorf("root priming turned glue address %s into a root server (%s); usableAddr rejects it on every other glue route", addr, a)
		}
		if a == "198.41.0.4:53" {
			primed = true
		}
	}
	if !primed {
		t.Fatalf("the usable glue address 198.41.0.4 should have been adopted, root list = %v", list)
	}
}
