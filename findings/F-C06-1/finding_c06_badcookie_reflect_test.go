package ratelimit

import (
	"context"
	"net"
	"testing"
	"time"

	"github.com/miekg/dns"
	"github.com/semihalev/sdns/config"
	"github.com/semihalev/sdns/internal/dnsutil"
	"github.com/semihalev/sdns/internal/mock"
	"github.com/semihalev/sdns/middleware"
	"github.com/semihalev/sdns/middleware/edns"
)

// TestFindingC06BadCookieReplyReflectsClientOptions — candidate F-C06-1.
//
// Property: client-subnet and foreign (unknown / local-use) EDNS options in
// a query are never reflected back to the client.
//
// The BADCOOKIE reply is built by Chain.CancelWithRcode, which does
// `m.Extra = req.Extra`. ratelimit runs ahead of edns in the default chain
// (gen.go: ... accesslist, ratelimit, reflex, edns ...), so at that point
// the request's OPT has not been stripped and the writer is not the edns
// wrapper that would build a clean OPT. The chain below keeps that order:
// [ratelimit, edns, terminal].
//
// Input: UDP client 203.0.113.7. Query 1 carries only a client cookie and
// establishes the cached server cookie. Query 2 carries
//
//	OPT{ COOKIE(client + stale server part),
//	     EDNS0_SUBNET 198.51.100.0/24,
//	     EDNS0_LOCAL code 65001 "tracking-token",
//	     EDNS0_PADDING 32 }
//
// and earns BADCOOKIE. The reply is packed and re-parsed so the assertion
// is about bytes on the wire, not about the mock's message pointer.
func TestFindingC06BadCookieReplyReflectsClientOptions(t *testing.T) {
	const (
		clientCookie = "aabbccdd11223344"
		staleServer  = "00112233445566778899aabbccddeeff"
		clientAddr   = "203.0.113.7:40000"
	)

	secondQuery := func(withForeign bool) *dns.Msg {
		q := new(dns.Msg)
		q.SetQuestion("example.com.", dns.TypeA)
		q.SetEdns0(1232, true)
		opt := q.IsEdns0()
		opt.Option = append(opt.Option,
			&dns.EDNS0_COOKIE{Code: dns.EDNS0COOKIE, Cookie: clientCookie + staleServer},
			&dns.EDNS0_SUBNET{
				Code: dns.EDNS0SUBNET, Family: 1, SourceNetmask: 24,
				Address: net.ParseIP("198.51.100.0").To4(),
			},
			&dns.EDNS0_PADDING{Padding: make([]byte, 32)},
		)
		if withForeign {
			opt.Option = append(opt.Option, &dns.EDNS0_LOCAL{Code: 65001, Data: []byte("tracking-token")})
		}
		return q
	}

	firstQuery := func() *dns.Msg {
		q := new(dns.Msg)
		q.SetQuestion("example.com.", dns.TypeA)
		q.SetEdns0(1232, true)
		opt := q.IsEdns0()
		opt.Option = append(opt.Option, &dns.EDNS0_COOKIE{Code: dns.EDNS0COOKIE, Cookie: clientCookie})
		return q
	}

	newChain := func(r *RateLimit, cfg *config.Config) *middleware.Chain {
		terminal := middleware.HandlerFunc(func(_ context.Context, ch *middleware.Chain) {
			ch.Cancel()
		})
		return middleware.NewChain([]middleware.Handler{r, edns.New(cfg), terminal})
	}

	assertClean := func(t *testing.T, w *mock.Writer) {
		t.Helper()

		if !w.Written() {
			t.Fatal("fixture: stale cookie over UDP should be answered")
		}
		if w.Rcode() != dns.RcodeBadCookie {
			t.Fatalf("fixture: rcode = %s, want BADCOOKIE", dns.RcodeToString[w.Rcode()])
		}

		// What the client actually receives.
		raw, err := w.Msg().Pack()
		if err != nil {
			t.Fatalf("pack reply: %v", err)
		}
		reply := new(dns.Msg)
		if err := reply.Unpack(raw); err != nil {
			t.Fatalf("unpack reply: %v", err)
		}
		opt := reply.IsEdns0()
		if opt == nil {
			t.Fatal("fixture: BADCOOKIE reply has no OPT")
		}

		sawCookie := false
		for _, option := range opt.Option {
			switch o := option.(type) {
			case *dns.EDNS0_COOKIE:
				sawCookie = true
				want := dnsutil.GenerateServerCookie("secret", "203.0.113.7", clientCookie)
				if o.Cookie != want {
					t.Errorf("fixture: reply cookie = %q, want %q", o.Cookie, want)
				}
			case *dns.EDNS0_SUBNET:
				t.Errorf("BADCOOKIE reply reflects the client's EDNS Client Subnet option verbatim: %s", o.String())
			case *dns.EDNS0_LOCAL:
				t.Errorf("BADCOOKIE reply reflects foreign EDNS option code %d verbatim: data=%q", o.Code, o.Data)
			case *dns.EDNS0_PADDING:
				t.Errorf("BADCOOKIE reply reflects the client's padding option verbatim: %d octets", len(o.Padding))
			default:
				t.Errorf("BADCOOKIE reply carries unexpected option code %d", option.Option())
			}
		}
		if !sawCookie {
			t.Error("fixture: BADCOOKIE reply carries no cookie option")
		}
	}

	// Control: the same query refused by a handler running BEHIND edns goes
	// out through the edns wrapper, which rebuilds the OPT. This is the
	// behaviour the property describes and the BADCOOKIE path bypasses.
	t.Run("control-behind-edns", func(t *testing.T) {
		cfg := &config.Config{ClientRateLimit: 100, CookieSecret: "secret"}
		refuse := middleware.HandlerFunc(func(_ context.Context, ch *middleware.Chain) {
			ch.CancelWithRcode(dns.RcodeRefused, false)
		})
		w := mock.NewWriter("udp", clientAddr)
		ch := middleware.NewChain([]middleware.Handler{edns.New(cfg), refuse})
		ch.Reset(w, secondQuery(true))
		ch.Next(context.Background())
		if !w.Written() {
			t.Fatal("control: no reply written")
		}
		raw, err := w.Msg().Pack()
		if err != nil {
			t.Fatalf("pack: %v", err)
		}
		reply := new(dns.Msg)
		if err := reply.Unpack(raw); err != nil {
			t.Fatalf("unpack: %v", err)
		}
		if opt := reply.IsEdns0(); opt != nil {
			for _, option := range opt.Option {
				switch option.Option() {
				case dns.EDNS0SUBNET, 65001, dns.EDNS0PADDING:
					t.Errorf("control: reply behind edns carries option code %d", option.Option())
				}
			}
		}
	})

	// The decoded body of ServeDNS (DoH/DoQ/embedders and any query the
	// server's wire parser declined).
	t.Run("decoded", func(t *testing.T) {
		cfg := &config.Config{ClientRateLimit: 100, CookieSecret: "secret"}
		r := New(cfg)

		w := mock.NewWriter("udp", clientAddr)
		ch := newChain(r, cfg)
		ch.Reset(w, firstQuery())
		ch.Next(context.Background())
		if w.Written() {
			t.Fatal("fixture: first serve should pass through, not answer")
		}

		w = mock.NewWriter("udp", clientAddr)
		ch = newChain(r, cfg)
		ch.Reset(w, secondQuery(true))
		ch.Next(context.Background())

		assertClean(t, w)
	})

	// serveWire: the server's raw UDP ingress. ParseWire declines a packet
	// carrying an option code it does not know (65001), which sends that
	// packet down the decoded body above; client subnet and padding are
	// shapes it admits, so those reach serveWire's own CancelWithRcode.
	t.Run("wire", func(t *testing.T) {
		cfg := &config.Config{ClientRateLimit: 100, CookieSecret: "secret"}
		r := New(cfg)

		parse := func(q *dns.Msg) *middleware.Request {
			raw, err := q.Pack()
			if err != nil {
				t.Fatalf("pack: %v", err)
			}
			req := new(middleware.Request)
			if !req.ParseWire(raw, time.Now(), nil) {
				t.Fatal("fixture: ParseWire declined a cookie+subnet+padding query")
			}
			return req
		}

		w := mock.NewWriter("udp", clientAddr)
		ch := newChain(r, cfg)
		ch.ResetWire(w, parse(firstQuery()))
		ch.Next(context.Background())
		if w.Written() {
			t.Fatal("fixture: first serve should pass through, not answer")
		}

		w = mock.NewWriter("udp", clientAddr)
		ch = newChain(r, cfg)
		ch.ResetWire(w, parse(secondQuery(false)))
		ch.Next(context.Background())

		assertClean(t, w)
	})
}
