package resolver

import (
	"context"
	"sync/atomic"
	"testing"

	"github.com/miekg/dns"
	"github.com/semihalev/sdns/internal/mock"
	"github.com/semihalev/sdns/middleware"
	cachemw "github.com/semihalev/sdns/middleware/cache"
)

// A lookup the resolver sheds at its own in-flight ceiling says nothing about
// the authority: it is refused before a single packet leaves. Such a refusal
// must surface as SERVFAIL to the client that met the full pool and to nobody
// else. This test pins the pool for one query, lets the pool drain, and asks
// the same (perfectly healthy) name again from another client.
func TestCapacityShedIsNotSharedWithOtherClients(t *testing.T) {
	var hits int64
	rootAddr, stopRoot := startMockAuth(t, &hits, func(q dns.Question) *dns.Msg {
		m := &dns.Msg{}
		m.Authoritative = true
		name := dns.CanonicalName(q.Name)
		switch {
		case name == "." && q.Qtype == dns.TypeNS:
			m.Answer = []dns.RR{mustRR(t, ". 3600 IN NS a.root.")}
		case name == "healthy." && q.Qtype == dns.TypeA:
			m.Answer = []dns.RR{mustRR(t, "healthy. 300 IN A 192.0.2.80")}
		default:
			m.Ns = []dns.RR{mustRR(t, ". 30 IN SOA a.root. hostmaster.root. 1 30 30 30 30")}
		}
		return m
	})
	defer stopRoot()

	base := makeTestConfig()
	cfg := *base
	cfg.RootServers = []string{rootAddr}
	cfg.Root6Servers = nil
	cfg.IPv6Access = false
	cfg.DNSSEC = "off"
	cfg.CacheSize = 1024
	cfg.RateLimit = 0
	cfg.MaxConcurrentQueries = 4

	h := New(&cfg)
	cm := cachemw.New(&cfg)
	defer cm.Stop()
	sub := &chainQueryer{handlers: []middleware.Handler{h}}
	cm.SetPrefetchQueryer(sub)
	cm.SetQueryer(sub)

	ask := func(client string) *dns.Msg {
		t.Helper()
		req := new(dns.Msg)
		req.SetQuestion("healthy.", dns.TypeA)
		req.SetEdns0(1232, false)
		w := mock.NewWriter("udp", client)
		ch := middleware.NewChain([]middleware.Handler{cm, h})
		ch.Reset(w, req)
		ch.Next(context.Background())
		if !w.Written() {
			t.Fatalf("client %s: no response written", client)
		}
		return w.Msg()
	}

	// Every in-flight slot is pinned by lookups for unrelated, unresponsive
	// destinations. (Filled directly: what holds the slots is irrelevant to
	// the client that meets the full pool.)
	slots := h.resolver.resolutionSlots
	for i := 0; i < cap(slots); i++ {
		slots <- struct{}{}
	}

	first := ask("127.0.0.1:1111")
	if first.Rcode != dns.RcodeServerFailure {
		t.Fatalf("client 1 under a full pool: want SERVFAIL, got %s", dns.RcodeToString[first.Rcode])
	}

	// Load stops: the pool drains completely.
	for i := 0; i < cap(slots); i++ {
		<-slots
	}

	before := atomic.LoadInt64(&hits)
	second := ask("127.0.0.2:2222")
	if second.Rcode != dns.RcodeSuccess || len(second.Answer) == 0 {
		ede := ""
		if opt := second.IsEdns0(); opt != nil {
			for _, o := range opt.Option {
				if e, ok := o.(*dns.EDNS0_EDE); ok {
					ede = dns.ExtendedErrorCodeToString[e.InfoCode] + ": " + e.ExtraText
				}
			}
		}
		t.Fatalf("client 2, idle resolver, healthy authority: want NOERROR with an answer, "+
			"got %s answers=%d ede=%q upstream-queries-for-client-2=%d "+
			"(client 1's local capacity refusal was published as shared failure state)",
			dns.RcodeToString[second.Rcode], len(second.Answer), ede, atomic.LoadInt64(&hits)-before)
	}
}
