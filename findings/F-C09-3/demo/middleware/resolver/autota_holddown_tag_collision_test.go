package resolver

import (
	"crypto/ed25519"
	"encoding/base64"
	"encoding/hex"
	"net"
	"path/filepath"
	"sync"
	"testing"
	"time"

	"github.com/miekg/dns"
	"github.com/semihalev/sdns/config"
	"github.com/semihalev/sdns/middleware/resolver/dnssec"
)

// hdRoot is a loopback "root server" whose DNSKEY answer the test
// swaps between AutoTA runs.
type hdRoot struct {
	mu     sync.Mutex
	answer []dns.RR
	addr   string
	srv    *dns.Server
}

func (s *hdRoot) ServeDNS(w dns.ResponseWriter, r *dns.Msg) {
	resp := new(dns.Msg)
	resp.SetRcode(r, dns.RcodeSuccess)
	resp.Authoritative = true
	if r.Question[0].Name == "." && r.Question[0].Qtype == dns.TypeDNSKEY {
		s.mu.Lock()
		resp.Answer = append(resp.Answer, s.answer...)
		s.mu.Unlock()
	}
	_ = w.WriteMsg(resp)
}

func (s *hdRoot) set(rrs []dns.RR) {
	s.mu.Lock()
	s.answer = rrs
	s.mu.Unlock()
}

func startHdRoot(t *testing.T) *hdRoot {
	t.Helper()
	pc, err := net.ListenPacket("udp", "127.0.0.1:0")
	if err != nil {
		t.Fatalf("listen: %v", err)
	}
	s := &hdRoot{addr: pc.LocalAddr().String()}
	started := make(chan struct{})
	s.srv = &dns.Server{PacketConn: pc, Handler: s, NotifyStartedFunc: func() { close(started) }}
	go func() { _ = s.srv.ActivateAndServe() }()
	<-started
	t.Cleanup(func() { _ = s.srv.Shutdown() })
	return s
}

type hdKey struct {
	key  *dns.DNSKEY
	priv ed25519.PrivateKey
}

func hdKeyFromSeed(t *testing.T, seedHex string) hdKey {
	t.Helper()
	seed, err := hex.DecodeString(seedHex)
	if err != nil || len(seed) != ed25519.SeedSize {
		t.Fatalf("bad seed %q", seedHex)
	}
	priv := ed25519.NewKeyFromSeed(seed)
	return hdKey{
		priv: priv,
		key: &dns.DNSKEY{
			Hdr:       dns.RR_Header{Name: ".", Rrtype: dns.TypeDNSKEY, Class: dns.ClassINET, Ttl: 3600},
			Flags:     257,
			Protocol:  3,
			Algorithm: dns.ED25519,
			PublicKey: base64.StdEncoding.EncodeToString(priv.Public().(ed25519.PublicKey)),
		},
	}
}

func (k hdKey) revoked() *dns.DNSKEY {
	r := *k.key
	r.Flags |= DNSKEYFlagRevoke
	return &r
}

// hdSign signs set with priv, naming signer (the key form whose tag
// goes into the RRSIG).
func hdSign(t *testing.T, set []dns.RR, signer *dns.DNSKEY, priv ed25519.PrivateKey) *dns.RRSIG {
	t.Helper()
	now := time.Now()
	sig := &dns.RRSIG{
		Hdr:         dns.RR_Header{Name: ".", Rrtype: dns.TypeRRSIG, Class: dns.ClassINET, Ttl: 3600},
		TypeCovered: dns.TypeDNSKEY,
		Algorithm:   signer.Algorithm,
		SignerName:  ".",
		KeyTag:      dnssec.KeyTag(signer),
		Inception:   uint32(now.Add(-time.Hour).Unix()), //nolint:gosec
		Expiration:  uint32(now.Add(time.Hour).Unix()),  //nolint:gosec
		OrigTtl:     3600,
	}
	if err := sig.Sign(priv, set); err != nil {
		t.Fatalf("sign: %v", err)
	}
	return sig
}

func newHdResolver(t *testing.T, root *hdRoot, anchors ...*dns.DNSKEY) *Resolver {
	t.Helper()
	cfg := new(config.Config)
	cfg.RootServers = []string{root.addr}
	for _, k := range anchors {
		cfg.RootKeys = append(cfg.RootKeys, k.String())
	}
	cfg.Maxdepth = 30
	cfg.Expire = 600
	cfg.CacheSize = 1024
	cfg.Timeout.Duration = 2 * time.Second
	cfg.Directory = t.TempDir()
	return NewResolver(cfg)
}

func hdLiveTags(r *Resolver) map[uint16]bool {
	r.RLock()
	defer r.RUnlock()
	out := make(map[uint16]bool)
	for _, rr := range r.rootKeys {
		out[dnssec.KeyTag(rr.(*dns.DNSKEY))] = true
	}
	return out
}

func hdLiveHas(r *Resolver, k *dns.DNSKEY) bool {
	r.RLock()
	defer r.RUnlock()
	for _, rr := range r.rootKeys {
		if dk := rr.(*dns.DNSKEY); dk.PublicKey == k.PublicKey && dk.Algorithm == k.Algorithm {
			return true
		}
	}
	return false
}

func hdStateOf(t *testing.T, r *Resolver, k *dns.DNSKEY) (State, bool) {
	t.Helper()
	st, err := readFromTAFile(filepath.Join(r.cfg.Directory, stateFile))
	if err != nil {
		t.Fatalf("read state: %v", err)
	}
	for _, ta := range st {
		if ta.DNSKey.PublicKey == k.PublicKey && ta.DNSKey.Algorithm == k.Algorithm {
			return ta.State, true
		}
	}
	return 0, false
}

// hdAge moves every first-seen timestamp in the state file back by d: the
// on-disk picture after d of wall-clock time during which nothing changed.
func hdAge(t *testing.T, r *Resolver, d time.Duration) {
	t.Helper()
	path := filepath.Join(r.cfg.Directory, stateFile)
	st, err := readFromTAFile(path)
	if err != nil {
		t.Fatalf("read state: %v", err)
	}
	for _, ta := range st {
		ta.FirstSeen = ta.FirstSeen.Add(-d)
	}
	if err := writeToTAFile(path, st); err != nil {
		t.Fatalf("write state: %v", err)
	}
}

// RFC 5011 §2.4.1 / §4.2: a new key is accepted only if it is seen in EVERY
// validated DNSKEY RRset for the whole 30-day add hold-down; a validated RRset
// that omits it (KeyRem in AddPend) returns it to Start. AutoTA decides "the
// pending key is still in the zone" by looking its 16-bit key tag up in the
// fetched set, so any other KSK-flagged record with the same tag - here the
// zone's own, long-tombstoned revoked key R' that stays published for weeks
// after a rollover - stands in for it.
//
// History: one forged response (signed with anchor K's compromised key - the
// exact adversary the hold-down exists for) introduces N, whose tag was ground
// to equal tag(R'). Every later refresh returns the genuine set {K, R'}, which
// never contains N. After 31 days N is a trust anchor.
func TestAutoTAAddHoldDownNotSatisfiedByTagCollidingRecord(t *testing.T) {
	k := hdKeyFromSeed(t, "1111111111111111111111111111111111111111111111111111111111111111")
	rk := hdKeyFromSeed(t, "3333333333333333333333333333333333333333333333333333333333333333")
	n := hdKeyFromSeed(t, "33770d0875970d9cb2afbb32ab42acfbda9a02bd6bd4adbd9fb596ef6321d922")
	if dnssec.KeyTag(n.key) != dnssec.KeyTag(rk.revoked()) {
		t.Fatalf("fixture: tag(N)=%d must equal tag(R')=%d", dnssec.KeyTag(n.key), dnssec.KeyTag(rk.revoked()))
	}
	if n.key.PublicKey == rk.key.PublicKey {
		t.Fatal("fixture: N and R must be different keys")
	}

	root := startHdRoot(t)
	r := newHdResolver(t, root, k.key, rk.key)

	signedBy := func(set []dns.RR, signers ...struct {
		form *dns.DNSKEY
		priv ed25519.PrivateKey
	}) []dns.RR {
		out := append([]dns.RR{}, set...)
		for _, s := range signers {
			out = append(out, hdSign(t, set, s.form, s.priv))
		}
		return out
	}
	type signer = struct {
		form *dns.DNSKEY
		priv ed25519.PrivateKey
	}

	// 1. Ordinary set {K, R}.
	root.set(signedBy([]dns.RR{k.key, rk.key}, signer{k.key, k.priv}, signer{rk.key, rk.priv}))
	r.AutoTA()
	if !hdLiveHas(r, k.key) || !hdLiveHas(r, rk.key) {
		t.Fatalf("setup: K and R should both be live")
	}

	// 2. The zone revokes R; R' stays published from now on.
	genuine := signedBy([]dns.RR{k.key, rk.revoked()}, signer{k.key, k.priv}, signer{rk.revoked(), rk.priv})
	root.set(genuine)
	r.AutoTA()
	if hdLiveHas(r, rk.key) || !hdLiveHas(r, k.key) {
		t.Fatalf("setup: after the revocation only K should be live")
	}

	// 3. One forged response: {K, N} signed with K.
	root.set(signedBy([]dns.RR{k.key, n.key}, signer{k.key, k.priv}))
	r.AutoTA()
	if st, ok := hdStateOf(t, r, n.key); !ok || st != StateAddPend {
		t.Fatalf("setup: N should be pending after the forged response, got %v (tracked=%v)", st, ok)
	}

	// 4. The genuine set again. It is fully authenticated by K and does not
	// contain N, so N's add hold-down must be aborted.
	root.set(genuine)
	r.AutoTA()
	if st, ok := hdStateOf(t, r, n.key); ok {
		t.Errorf("N is absent from an accepted refresh but is still tracked as %v - the add hold-down was not aborted", st)
	}

	// 5. 31 days of the same genuine set later.
	hdAge(t, r, 31*24*time.Hour)
	r.AutoTA()
	if hdLiveHas(r, n.key) {
		t.Errorf("N became a live trust anchor although it appeared in exactly one of the accepted refreshes (live tags %v)", hdLiveTags(r))
	}
}
