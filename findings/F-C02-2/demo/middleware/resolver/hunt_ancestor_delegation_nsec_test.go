package resolver

import (
	"net"
	"testing"

	"github.com/miekg/dns"
)

// huntDelegateBelow hangs a signed child zone below an already delegated
// signed zone: the parent publishes NS + signed DS and refers to it.
func huntDelegateBelow(t *testing.T, n *hermeticNet, parent *hermeticZone, name string, lastOctet byte) *hermeticZone {
	t.Helper()
	name = dns.Fqdn(name)
	z := &hermeticZone{
		tb: t, name: name, key: newHermeticKey(t, name),
		server: startHermeticServer(t, name), signed: true,
		glue:  net.IPv4(192, 0, 2, lastOctet),
		glue6: net.ParseIP("2001:db8::ff:" + net.IPv4(0, 0, 0, lastOctet).String()[6:]),
	}
	z.Serve(z.key.key)
	signedSOA(t, z.server, name, &z.key)

	ns := &dns.NS{Hdr: dns.RR_Header{Name: name, Rrtype: dns.TypeNS, Class: dns.ClassINET, Ttl: 3600}, Ns: "ns." + name}
	glue := &dns.A{Hdr: dns.RR_Header{Name: "ns." + name, Rrtype: dns.TypeA, Class: dns.ClassINET, Ttl: 3600}, A: z.glue}
	ds := z.key.key.ToDS(dns.SHA256)
	dsSig := parent.key.sign(t, []dns.RR{ds})
	parent.server.serve(name, dns.TypeDS, ds, dsSig)
	parent.server.mu.Lock()
	parent.server.children[name] = &hermeticReferral{zone: name, ns: []dns.RR{ns, ds, dsSig}, extra: []dns.RR{glue}}
	parent.server.mu.Unlock()
	z.ds = []dns.RR{ds}
	n.zones = append(n.zones, z)
	return z
}

// TestHuntAncestorDelegationNSECDeniesNothingInTheChild: par.test. (NSEC
// signed) securely delegates child.par.test.; the child publishes an address
// at its apex and one at www. The only record the PARENT's signer publishes
// at the cut is
//
//	child.par.test. NSEC zz-last.par.test. NS DS RRSIG NSEC
//
// which says what the parent holds at that name and nothing about the child
// zone (RFC 6840 §4.1: an ancestor-delegation NSEC "MUST NOT be used to
// assume nonexistence of any RRs below that zone cut", i.e. every type at the
// owner other than DS and everything below it). A forger on the path to the
// parent's servers answers in the parent's name with that genuine record.
func TestHuntAncestorDelegationNSECDeniesNothingInTheChild(t *testing.T) {
	n := newHermeticNet(t)
	par := n.Delegate("par.test.")
	child := huntDelegateBelow(t, n, par, "child.par.test.", 210)
	child.Serve(mustRR(t, "child.par.test. 300 IN A 192.0.2.9"))
	child.Serve(mustRR(t, "www.child.par.test. 300 IN A 192.0.2.10"))

	// Ground truth through the genuine referral.
	for _, name := range []string{"child.par.test.", "www.child.par.test."} {
		truth := hermeticAsk(t, n.Handler(), name, dns.TypeA)
		if truth.Rcode != dns.RcodeSuccess || len(truth.Answer) == 0 || !truth.AuthenticatedData {
			t.Fatalf("fixture: %s A did not validate: rcode=%s ad=%v answer=%v", name,
				dns.RcodeToString[truth.Rcode], truth.AuthenticatedData, truth.Answer)
		}
	}

	// The parent signer's genuine NSEC at the cut.
	cut := &dns.NSEC{
		Hdr:        dns.RR_Header{Name: "child.par.test.", Rrtype: dns.TypeNSEC, Class: dns.ClassINET, Ttl: 3600},
		NextDomain: "zz-last.par.test.",
		TypeBitMap: []uint16{dns.TypeNS, dns.TypeDS, dns.TypeRRSIG, dns.TypeNSEC},
	}
	cutSig := par.key.sign(t, []dns.RR{cut})

	// From now on the replies "from par.test." are the forger's: no referral,
	// but a denial carrying the parent's signed SOA and that NSEC.
	par.server.mu.Lock()
	delete(par.server.children, "child.par.test.")
	par.server.mu.Unlock()
	par.server.proveAbsent("child.par.test.", dns.TypeA, cut, cutSig) // NOERROR/NODATA
	par.server.setNXProof([]dns.RR{cut, cutSig})                      // NXDOMAIN for everything else

	t.Run("NODATA at the child apex", func(t *testing.T) {
		resp := hermeticAsk(t, n.Handler(), "child.par.test.", dns.TypeA)
		t.Logf("rcode=%s ad=%v ns=%d", dns.RcodeToString[resp.Rcode], resp.AuthenticatedData, len(resp.Ns))
		if resp.Rcode == dns.RcodeSuccess && len(resp.Answer) == 0 {
			t.Fatalf("child.par.test. A exists in the child zone, yet the parent's "+
				"delegation NSEC was accepted as proof that it does not (AD=%v)", resp.AuthenticatedData)
		}
	})
	t.Run("NXDOMAIN below the cut", func(t *testing.T) {
		resp := hermeticAsk(t, n.Handler(), "www.child.par.test.", dns.TypeA)
		t.Logf("rcode=%s ad=%v ns=%d", dns.RcodeToString[resp.Rcode], resp.AuthenticatedData, len(resp.Ns))
		if resp.Rcode == dns.RcodeNameError {
			t.Fatalf("www.child.par.test. exists in the child zone, yet the parent's "+
				"delegation NSEC was accepted as proof of NXDOMAIN (AD=%v)", resp.AuthenticatedData)
		}
	})
}
