package dnssec

import (
	"strings"
	"testing"

	"github.com/miekg/dns"
)

// TestHuntAncestorDelegationNSEC3DoesNotDenyChildApexTypes: the parent zone
// par.test. holds, for the secure delegation child.par.test., the NSEC3
//
//	H(child.par.test.).par.test. NSEC3 1 0 0 - <next> NS DS RRSIG
//
// It matches `child.par.test.` exactly, and its bitmap lacks A — because the
// apex A RRset belongs to the child zone, not because it does not exist. As a
// NODATA proof for `child.par.test. A` it must be refused (RFC 6840 §4.1); it
// stays a perfectly good proof for the one type the parent answers for, DS
// (here: "DS exists", so a DS NODATA is refused for the ordinary reason).
func TestHuntAncestorDelegationNSEC3DoesNotDenyChildApexTypes(t *testing.T) {
	const zone = "par.test."
	owner := strings.ToLower(dns.HashName("child.par.test.", dns.SHA1, 0, "")) + "." + zone
	next := strings.ToLower(dns.HashName("zz.par.test.", dns.SHA1, 0, ""))
	cut := &dns.NSEC3{
		Hdr:        dns.RR_Header{Name: owner, Rrtype: dns.TypeNSEC3, Class: dns.ClassINET, Ttl: 3600},
		Hash:       dns.SHA1,
		HashLength: 20,
		NextDomain: next,
		TypeBitMap: []uint16{dns.TypeNS, dns.TypeDS, dns.TypeRRSIG},
	}

	msg := new(dns.Msg)
	msg.SetQuestion("child.par.test.", dns.TypeA)

	secure, err := VerifyNODATAForZoneWithWork(msg, []dns.RR{cut}, zone, nil)
	if err == nil {
		t.Fatalf("the parent's delegation NSEC3 was accepted as NODATA proof for "+
			"child.par.test. A (secure=%v); the child's apex types are not the parent's to deny", secure)
	}
}
