package resolver

import (
	"net"
	"testing"

	"github.com/miekg/dns"
)

// TestHuntADNeverRestsOnUnauthenticatedDS: sec.test. is signed and chained to
// the trust anchor. a.sec.test. is a proven INSECURE delegation below it (the
// parent's signed NSEC says: NS, no DS). Everything below a.sec.test. is
// therefore outside the chain of trust and no answer for a name there may be
// handed to a client with AD=1.
//
// The reply to `x.b.a.sec.test. A` that arrives from sec.test.'s address is a
// direct answer signed by "b.a.sec.test." (an on-path forger, or one server
// that hosts all three zones). The resolver fetches `b.a.sec.test. DS` — which
// is served by the UNSIGNED zone a.sec.test. and comes back unauthenticated —
// and then uses it as if it were a link of the chain.
func TestHuntADNeverRestsOnUnauthenticatedDS(t *testing.T) {
	n := newHermeticNet(t)
	sec := n.Delegate("sec.test.")

	// --- the unsigned zone a.sec.test., on its own socket ------------------
	aSrv := startHermeticServer(t, "a.sec.test.")
	signedSOA(t, aSrv, "a.sec.test.", nil)
	aZone := &hermeticZone{
		tb: t, name: "a.sec.test.", server: aSrv,
		glue:  net.IPv4(192, 0, 2, 200),
		glue6: net.ParseIP("2001:db8::200"),
	}
	n.zones = append(n.zones, aZone)

	// --- sec.test. delegates a.sec.test. insecurely, with proof -------------
	ns := mustRR(t, "a.sec.test. 3600 IN NS ns.a.sec.test.")
	noDS := &dns.NSEC{
		Hdr:        dns.RR_Header{Name: "a.sec.test.", Rrtype: dns.TypeNSEC, Class: dns.ClassINET, Ttl: 3600},
		NextDomain: "zz-last.sec.test.",
		TypeBitMap: []uint16{dns.TypeNS, dns.TypeRRSIG, dns.TypeNSEC},
	}
	noDSSig := sec.key.sign(t, []dns.RR{noDS})
	sec.server.mu.Lock()
	sec.server.children["a.sec.test."] = &hermeticReferral{
		zone:  "a.sec.test.",
		ns:    []dns.RR{ns, noDS, noDSSig},
		extra: []dns.RR{mustRR(t, "ns.a.sec.test. 3600 IN A 192.0.2.200")},
	}
	sec.server.mu.Unlock()
	// `a.sec.test. DS` asked of the parent: signed NODATA.
	sec.server.proveAbsent("a.sec.test.", dns.TypeDS, noDS, noDSSig)

	// --- what lives below the insecure cut: a self-signed island ------------
	island := newHermeticKey(t, "b.a.sec.test.")
	ds := island.key.ToDS(dns.SHA256)
	aSrv.serve("b.a.sec.test.", dns.TypeDS, ds) // unsigned: a.sec.test. has no keys
	aSrv.serve("b.a.sec.test.", dns.TypeDNSKEY, island.key, island.sign(t, []dns.RR{island.key}))
	forged := mustRR(t, "x.b.a.sec.test. 300 IN A 6.6.6.6")
	forgedSig := island.sign(t, []dns.RR{forged})
	aSrv.serve("x.b.a.sec.test.", dns.TypeA, forged, forgedSig)

	// --- the reply that arrives from sec.test.'s address --------------------
	sec.server.serve("x.b.a.sec.test.", dns.TypeA, forged, forgedSig)

	resp := hermeticAsk(t, n.Handler(), "x.b.a.sec.test.", dns.TypeA)

	t.Logf("rcode=%s ad=%v answer=%v", dns.RcodeToString[resp.Rcode], resp.AuthenticatedData, resp.Answer)
	if resp.AuthenticatedData {
		t.Fatalf("AD=1 for %v: the only DS for the signer was served by the "+
			"unsigned zone a.sec.test. and was never authenticated, so the "+
			"answer is not chained to the trust anchor", resp.Answer)
	}
}
