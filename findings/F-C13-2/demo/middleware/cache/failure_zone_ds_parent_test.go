package cache

import (
	"context"
	"sync/atomic"
	"testing"
	"time"

	"github.com/miekg/dns"
	"github.com/semihalev/sdns/config"
	"github.com/semihalev/sdns/internal/dnsutil"
	"github.com/semihalev/sdns/internal/mock"
	"github.com/semihalev/sdns/middleware"
)

func wireNameOf(t *testing.T, name string) []byte {
	t.Helper()
	buf := make([]byte, 256)
	off, err := dns.PackDomainName(name, buf, 0, nil, false)
	if err != nil {
		t.Fatalf("PackDomainName(%q): %v", name, err)
	}
	return buf[:off]
}

// The DS RRset of a delegation lives in, and is served by, the PARENT zone
// (RFC 4035 section 3.1.4.1; the resolver's own searchCache moves a DS
// question one label up before it picks servers). A zone-wide failure says
// that the servers of that zone gave no usable response; it is no evidence
// about the parent's servers, which are the only ones a DS question for the
// zone apex would ever be sent to.
func TestZoneFailureDoesNotSuppressParentSideDS(t *testing.T) {
	clock := newFailureFakeClock()
	fc := newFailureTestCache(t, 64, clock)

	fc.RecordZone(FailureZoneKey{Zone: "dead.example.", Qclass: dns.ClassINET}, FailureProvenance("authority"), nil)

	// Sanity: names the failed servers would have been asked about are covered.
	for _, key := range []FailureQuestionKey{
		failureQuestion("dead.example.", dns.TypeA),
		failureQuestion("www.dead.example.", dns.TypeA),
		// DS of a child of the failed zone is served by the failed zone.
		failureQuestion("sub.dead.example.", dns.TypeDS),
	} {
		if hit, ok := fc.Lookup(key); !ok || hit.Kind != FailureKindZone || hit.Zone.Zone != "dead.example." {
			t.Fatalf("Lookup(%v) = %+v, %v; want the dead.example. zone failure", key.Question, hit, ok)
		}
	}

	ds := failureQuestion("dead.example.", dns.TypeDS)
	if hit, ok := fc.Lookup(ds); ok {
		t.Errorf("Lookup(dead.example. DS) served zone failure %q: the DS question goes to the parent's servers, which never failed", hit.Zone.Zone)
	}
	if hit, ok := fc.LookupWire(wireNameOf(t, "dead.example."), dns.TypeDS, dns.ClassINET, false); ok {
		t.Errorf("LookupWire(dead.example. DS) served zone failure %q", hit.Zone.Zone)
	}
	if _, ok := fc.LookupWire(wireNameOf(t, "sub.dead.example."), dns.TypeDS, dns.ClassINET, false); !ok {
		t.Errorf("LookupWire(sub.dead.example. DS) missed the zone that serves it")
	}

	// A useful DS answer came from the parent: it must not erase the child
	// zone's backoff history either.
	clock.Advance(DefaultFailureInitialTTL + time.Second)
	fc.ResetMatching(ds)
	if _, ok := fc.RetryKey(failureQuestion("www.dead.example.", dns.TypeA)); !ok {
		t.Errorf("a DS answer from the parent erased the backoff history of dead.example.")
	}

	// The parent's own failure does cover the DS question.
	fc.RecordZone(FailureZoneKey{Zone: "example.", Qclass: dns.ClassINET}, FailureProvenance("authority"), nil)
	if hit, ok := fc.Lookup(ds); !ok || hit.Zone.Zone != "example." {
		t.Errorf("Lookup(dead.example. DS) = %+v, %v; want the example. zone failure", hit, ok)
	}
	if hit, ok := fc.LookupWire(wireNameOf(t, "dead.example."), dns.TypeDS, dns.ClassINET, false); !ok || hit.Zone.Zone != "example." {
		t.Errorf("LookupWire(dead.example. DS) = %+v, %v; want the example. zone failure", hit, ok)
	}
}

// End to end through Cache.ServeDNS: while dead.example. is in backoff, a
// client's DS question for it must still reach the resolver (which asks the
// healthy parent) instead of being answered SERVFAIL / EDE 13 from the cache.
func TestZoneFailureLetsParentSideDSThroughServeDNS(t *testing.T) {
	c := New(&config.Config{CacheSize: 1024})
	defer c.Stop()

	c.store.RecordZoneFailure(dns.Question{Name: "www.dead.example.", Qtype: dns.TypeA, Qclass: dns.ClassINET}, "dead.example.")

	var calls atomic.Int32
	downstream := middleware.HandlerFunc(func(_ context.Context, ch *middleware.Chain) {
		calls.Add(1)
		req := ch.Request.Msg()
		resp := new(dns.Msg)
		resp.SetReply(req)
		resp.RecursionAvailable = true
		if req.Question[0].Qtype == dns.TypeDS {
			resp.Answer = []dns.RR{&dns.DS{
				Hdr:        dns.RR_Header{Name: req.Question[0].Name, Rrtype: dns.TypeDS, Class: dns.ClassINET, Ttl: 300},
				KeyTag:     12345,
				Algorithm:  dns.ECDSAP256SHA256,
				DigestType: dns.SHA256,
				Digest:     "49FD46E6C4B45C55D4AC49FD46E6C4B45C55D4AC49FD46E6C4B45C55D4AC1234",
			}}
		}
		_ = ch.Writer.WriteMsg(resp)
		ch.Cancel()
	})

	query := func(name string, qtype uint16) *dns.Msg {
		req := new(dns.Msg)
		req.SetQuestion(name, qtype)
		req.SetEdns0(1232, true)
		writer := mock.NewWriter("udp", "192.0.2.1:53000")
		ch := middleware.NewChain([]middleware.Handler{c, downstream})
		ch.Reset(writer, req)
		ch.Next(context.Background())
		return writer.Msg()
	}

	// The zone failure is active for names the dead servers own.
	if resp := query("mail.dead.example.", dns.TypeA); resp == nil || resp.Rcode != dns.RcodeServerFailure || calls.Load() != 0 {
		t.Fatalf("in-zone name: resp=%v downstream calls=%d; want cached SERVFAIL without downstream", resp, calls.Load())
	}

	resp := query("dead.example.", dns.TypeDS)
	if resp == nil {
		t.Fatal("no response to the DS question")
	}
	if ede := dnsutil.GetEDE(resp); resp.Rcode == dns.RcodeServerFailure || (ede != nil && ede.InfoCode == dns.ExtendedErrorCodeCachedError) {
		t.Errorf("DS dead.example. answered rcode=%s ede=%+v from the child's zone failure; downstream calls=%d, want the parent-side answer",
			dns.RcodeToString[resp.Rcode], ede, calls.Load())
	}
	if calls.Load() != 1 {
		t.Errorf("downstream calls for the DS question = %d, want 1", calls.Load())
	}
}
