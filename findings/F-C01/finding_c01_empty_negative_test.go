package resolver

import (
	"fmt"
	"testing"

	"github.com/miekg/dns"
)

// Candidates F-C01-1 and F-C01-2.
//
// Property: under a zone with a validated DS chain (a signed zone) and a
// CD=0 query, a denial that arrives without its proof must surface as
// SERVFAIL — never as unauthenticated NXDOMAIN / NODATA. An on-path spoofer
// needs no key to produce "rcode only, every section empty".
//
// Both tests use the package's hermetic namespace: a signed root that
// delegates (with a signed DS) to a signed child served from its own
// loopback socket. The child is then made to send its negative replies
// with all sections empty, which is exactly what the fixture's own comments
// say a validator must refuse ("a validator cannot tell a denial from a
// stripped answer without one").

// stripNegativeProofs makes every negative reply of the zone carry no
// SOA, no NSEC/NSEC3 and no RRSIG: just a header and the question.
func stripNegativeProofs(z *hermeticZone) {
	z.server.mu.Lock()
	defer z.server.mu.Unlock()
	z.server.soaProof = nil
	z.server.nxProof = nil
	z.server.nodataProof = map[string][]dns.RR{}
}

func findingC01Describe(resp *dns.Msg) string {
	if resp == nil {
		return "<nil>"
	}
	return fmt.Sprintf("rcode=%s ad=%v answer=%d authority=%d",
		dns.RcodeToString[resp.Rcode], resp.AuthenticatedData, len(resp.Answer), len(resp.Ns))
}

func TestFindingC01EmptyNXDOMAINUnderSignedZone(t *testing.T) {
	// warm: the chain to the zone has already been walked and validated by
	// a positive query, so the denial is asked straight of the child.
	// cold: the denial is the first thing asked; the resolver walks
	// root -> referral(+DS) -> child and gets the empty NXDOMAIN there.
	for _, warm := range []bool{true, false} {
		name := "cold"
		if warm {
			name = "warm"
		}
		t.Run(name, func(t *testing.T) {
			net := newHermeticNet(t)
			zone := net.Delegate("signed-nx.test.")
			zone.Serve(mustRR(t, "www.signed-nx.test. 300 IN A 192.0.2.10"))
			handler := net.Handler()

			if warm {
				// Control: the chain validates end to end, so the zone is
				// known-signed from the resolver's point of view.
				resp := hermeticAsk(t, handler, "www.signed-nx.test.", dns.TypeA)
				if resp.Rcode != dns.RcodeSuccess || !resp.AuthenticatedData {
					t.Fatalf("fixture: positive answer not validated: %s", findingC01Describe(resp))
				}
			}

			stripNegativeProofs(zone)

			// CD=0, DO=1 query for a name that does not exist in the zone.
			// The child replies rcode=NXDOMAIN with answer, authority and
			// additional all empty.
			resp := hermeticAsk(t, handler, "absent.signed-nx.test.", dns.TypeA)

			if zone.asked("absent.signed-nx.test.", dns.TypeA) == 0 {
				t.Fatal("fixture: the denial was never asked of the signed child")
			}
			if resp.Rcode != dns.RcodeServerFailure {
				t.Errorf("empty NXDOMAIN (no SOA, no NSEC, no RRSIG) from a zone under a validated DS chain was passed to a CD=0 client as %s; want SERVFAIL",
					findingC01Describe(resp))
			}
			if resp.AuthenticatedData {
				t.Errorf("unproven denial marked authenticated: %s", findingC01Describe(resp))
			}
		})
	}
}

func TestFindingC01EmptyNOERRORUnderSignedZone(t *testing.T) {
	for _, warm := range []bool{true, false} {
		name := "cold"
		if warm {
			name = "warm"
		}
		t.Run(name, func(t *testing.T) {
			net := newHermeticNet(t)
			zone := net.Delegate("signed-nodata.test.")
			zone.Serve(mustRR(t, "host.signed-nodata.test. 300 IN A 192.0.2.40"))
			handler := net.Handler()

			if warm {
				resp := hermeticAsk(t, handler, "host.signed-nodata.test.", dns.TypeA)
				if resp.Rcode != dns.RcodeSuccess || !resp.AuthenticatedData {
					t.Fatalf("fixture: positive answer not validated: %s", findingC01Describe(resp))
				}
			}

			stripNegativeProofs(zone)

			// The name exists (it has an A), the type does not. The child
			// replies rcode=NOERROR with every section empty: a NODATA
			// with no SOA and no NSEC.
			resp := hermeticAsk(t, handler, "host.signed-nodata.test.", dns.TypeTXT)

			if zone.asked("host.signed-nodata.test.", dns.TypeTXT) == 0 {
				t.Fatal("fixture: the NODATA query was never asked of the signed child")
			}
			if resp.Rcode != dns.RcodeServerFailure {
				t.Errorf("empty NOERROR (no SOA, no NSEC, no RRSIG) from a zone under a validated DS chain was passed to a CD=0 client as %s; want SERVFAIL",
					findingC01Describe(resp))
			}
			if resp.AuthenticatedData {
				t.Errorf("unproven NODATA marked authenticated: %s", findingC01Describe(resp))
			}
		})
	}
}
