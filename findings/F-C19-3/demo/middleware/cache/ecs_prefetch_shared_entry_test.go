package cache

import (
	"context"
	"net"
	"os"
	"sync"
	"testing"
	"time"

	"github.com/miekg/dns"
	"github.com/semihalev/sdns/internal/mock"
	"github.com/semihalev/sdns/middleware"
	"github.com/semihalev/sdns/middleware/edns"
)

// geoAuthority stands in for resolver/forwarder + a geo-aware authority: a
// query without a client-subnet option gets the untailored answer and no
// option back; a query with one gets the answer for that subnet and the
// option echoed with SCOPE=/24 (RFC 7871 §7.2.1).
type geoAuthority struct {
	mu   sync.Mutex
	seen []string
}

func (g *geoAuthority) Name() string { return "geo" }

func (g *geoAuthority) ServeDNS(_ context.Context, ch *middleware.Chain) {
	req := ch.Request.Msg()
	var sub *dns.EDNS0_SUBNET
	if opt := req.IsEdns0(); opt != nil {
		for _, o := range opt.Option {
			if s, ok := o.(*dns.EDNS0_SUBNET); ok {
				sub = s
			}
		}
	}
	g.mu.Lock()
	if sub == nil {
		g.seen = append(g.seen, "none")
	} else {
		g.seen = append(g.seen, sub.Address.String())
	}
	g.mu.Unlock()

	if sub == nil {
		_ = ch.Writer.WriteMsg(reply(req, "10.0.0.1", 0))
		return
	}
	_ = ch.Writer.WriteMsg(reply(req, "10.20.30.40", 24))
}

func (g *geoAuthority) asked() []string {
	g.mu.Lock()
	defer g.mu.Unlock()
	return append([]string(nil), g.seen...)
}

// prefetchSubPipeline is the cache-less refresh pipeline middleware.Setup
// wires in production (edns stays in it, the cache does not), entered through
// an internal writer with the sentinel address the real BufferWriter reports.
type prefetchSubPipeline struct {
	handlers []middleware.Handler
	done     chan struct{}
	once     sync.Once
}

func (q *prefetchSubPipeline) Query(ctx context.Context, req *dns.Msg) (*dns.Msg, error) {
	defer q.once.Do(func() { close(q.done) })
	w := mock.NewWriter("tcp", "127.0.0.255:0")
	ch := middleware.NewChain(q.handlers)
	ch.Reset(w, req)
	ch.Next(ctx)
	if !w.Written() {
		return nil, middleware.ErrNoResponse
	}
	return w.Msg(), nil
}

// TestECSClientPrefetchDoesNotRetailorSharedEntry: a shared (unscoped) entry
// is the answer for everybody. When a client that sent ECS hits it inside the
// prefetch window, the background refresh must not come back with an answer
// the authority scoped to that one client's /24 and file it under the shared
// key.
func TestECSClientPrefetchDoesNotRetailorSharedEntry(t *testing.T) {
	cfg := makeECSTestConfig(t)
	defer os.RemoveAll(cfg.Directory)
	cfg.Prefetch = 50
	cfg.RateLimit = 0

	c := New(cfg)
	defer c.Stop()

	geo := &geoAuthority{}
	em := edns.New(cfg)
	refresh := &prefetchSubPipeline{
		handlers: []middleware.Handler{em, geo},
		done:     make(chan struct{}),
	}
	c.SetPrefetchQueryer(refresh)

	ask := func(clientIP string, ecsAddr string) string {
		t.Helper()
		req := new(dns.Msg)
		req.SetQuestion("cdn.example.", dns.TypeA)
		req.SetEdns0(1232, false)
		if ecsAddr != "" {
			req.IsEdns0().Option = append(req.IsEdns0().Option, &dns.EDNS0_SUBNET{
				Code: dns.EDNS0SUBNET, Family: 1, SourceNetmask: 32,
				Address: net.ParseIP(ecsAddr).To4(),
			})
		}
		w := mock.NewWriter("udp", clientIP+":0")
		ch := middleware.NewChain([]middleware.Handler{em, c, geo})
		ch.Reset(w, req)
		ch.Next(context.Background())
		if !w.Written() {
			t.Fatalf("client %s: nothing written", clientIP)
		}
		return answerA(w.Msg())
	}

	// 1. A client without ECS fills the shared entry with the untailored answer.
	if got := ask("192.0.2.10", ""); got != "10.0.0.1" {
		t.Fatalf("plain client: got %s, want 10.0.0.1", got)
	}
	key := CacheKey{Question: dns.Question{Name: "cdn.example.", Qtype: dns.TypeA, Qclass: dns.ClassINET}}.Hash()
	entry, ok := c.positive.Get(key)
	if !ok {
		t.Fatal("shared entry not stored")
	}
	if entry.scoped() {
		t.Fatal("fixture: the untailored answer must be a shared entry")
	}
	// Age it into the prefetch window without sleeping.
	entry.stored = entry.stored.Add(-time.Duration(entry.origTTL) * time.Second * 3 / 4)

	// 2. A client in 203.0.113.0/24 that sends ECS hits the shared entry
	//    (scoped probe misses, shared fallback hits) and claims the prefetch.
	if got := ask("203.0.113.5", "203.0.113.5"); got != "10.0.0.1" {
		t.Fatalf("ECS client on shared entry: got %s, want the cached 10.0.0.1", got)
	}

	select {
	case <-refresh.done:
	case <-time.After(2 * time.Second):
		t.Fatal("prefetch refresh never ran")
	}
	deadline := time.Now().Add(2 * time.Second)
	for entry.prefetch.Load() && time.Now().Before(deadline) {
		time.Sleep(5 * time.Millisecond)
	}
	if entry.prefetch.Load() {
		t.Fatal("prefetch worker did not finish")
	}
	t.Logf("upstream queries, by ECS address seen: %v", geo.asked())

	// 3. What does everybody else get from the shared key now?
	current, ok := c.positive.Get(key)
	if !ok {
		t.Fatal("shared entry vanished")
	}
	if got := answerA(current.ToMsg(reqWithoutECS("cdn.example."))); got != "10.0.0.1" {
		t.Errorf("shared entry now holds %s: the answer the authority scoped to 203.0.113.0/24 "+
			"was background-refreshed into the key every client reads", got)
	}
	if got := ask("192.0.2.10", ""); got != "10.0.0.1" {
		t.Errorf("plain client 192.0.2.10 is served %s — tailored to 203.0.113.0/24 — from the shared entry", got)
	}
	before := len(geo.asked())
	if got := ask("198.51.100.9", "198.51.100.9"); got == "10.20.30.40" && len(geo.asked()) == before {
		t.Errorf("client in 198.51.100.0/24 is served 10.20.30.40 from the cache — scoped to 203.0.113.0/24; upstream saw %v",
			geo.asked())
	}
}

func reqWithoutECS(name string) *dns.Msg {
	req := new(dns.Msg)
	req.SetQuestion(name, dns.TypeA)
	req.SetEdns0(1232, false)
	return req
}
