package dns64

import (
	"context"
	"testing"

	"github.com/miekg/dns"
)

// noDataWithSOA is a NOERROR/NODATA AAAA reply whose authority section holds
// an SOA with the given RR TTL and MINIMUM field.
func noDataWithSOA(t *testing.T, qname string, soaTTL, soaMinimum uint32) *dns.Msg {
	t.Helper()
	m := new(dns.Msg)
	m.SetQuestion(qname, dns.TypeAAAA)
	m.Response = true
	m.Rcode = dns.RcodeSuccess
	m.RecursionAvailable = true
	m.SetEdns0(4096, true)
	soa, err := dns.NewRR("example.org. " + uintToString(soaTTL) +
		" IN SOA ns.example.org. hostmaster.example.org. 1 7200 3600 604800 " + uintToString(soaMinimum))
	if err != nil {
		t.Fatalf("SOA: %v", err)
	}
	m.Ns = []dns.RR{soa}
	return m
}

// TestSynthesisedTTLBoundedByZeroNegativeTTL: RFC 6147 §5.1.7 — the
// synthesised AAAA's TTL is the minimum of the A TTL and the TTL the negative
// AAAA answer may be cached for (RFC 2308: min(SOA TTL, SOA MINIMUM)). Zero is
// a legal value for both SOA fields ("do not cache this denial"), and it is
// also what a cache hands out for a NODATA entry in its last second. A zero
// negative TTL must bound the synthesised record like any other value.
func TestSynthesisedTTLBoundedByZeroNegativeTTL(t *testing.T) {
	const qname = "host.example.org."

	cases := []struct {
		name               string
		soaTTL, soaMinimum uint32
		aTTL               uint32
		wantMax            uint32
	}{
		{name: "control: SOA 3600/60, A 300", soaTTL: 3600, soaMinimum: 60, aTTL: 300, wantMax: 60},
		{name: "control: SOA 1/1, A 300", soaTTL: 1, soaMinimum: 1, aTTL: 300, wantMax: 1},
		{name: "SOA RR TTL 0 (aged out in a cache), A 300", soaTTL: 0, soaMinimum: 3600, aTTL: 300, wantMax: 0},
		{name: "SOA MINIMUM 0 (zone says: do not cache denials), A 300", soaTTL: 3600, soaMinimum: 0, aTTL: 300, wantMax: 0},
		{name: "both 0, A 86400", soaTTL: 0, soaMinimum: 0, aTTL: 86400, wantMax: 0},
	}
	for _, tc := range cases {
		t.Run(tc.name, func(t *testing.T) {
			d := New(baseConfig())
			d.queryer = &stubQueryer{resp: aRespMsg(qname, tc.aTTL, "198.51.100.7")}
			downstream := &stubAnswerer{msg: noDataWithSOA(t, qname, tc.soaTTL, tc.soaMinimum)}
			ch, mw := makeChain(t, d, downstream, "203.0.113.5:53", qname, dns.TypeAAAA)

			d.ServeDNS(context.Background(), ch)
			if !mw.Written() {
				t.Fatal("nothing written")
			}
			var synth *dns.AAAA
			for _, rr := range mw.Msg().Answer {
				if aaaa, ok := rr.(*dns.AAAA); ok {
					synth = aaaa
				}
			}
			if synth == nil {
				t.Fatalf("no synthesised AAAA in %v", mw.Msg().Answer)
			}
			if synth.Hdr.Ttl > tc.wantMax {
				t.Errorf("synthesised AAAA TTL = %d, negative TTL of the AAAA answer = %d (SOA TTL %d, MINIMUM %d), A TTL = %d",
					synth.Hdr.Ttl, tc.wantMax, tc.soaTTL, tc.soaMinimum, tc.aTTL)
			}
		})
	}
}
