package resolver

import (
	"context"
	"testing"

	"github.com/miekg/dns"
	"github.com/semihalev/sdns/internal/dnsutil"
	"github.com/semihalev/sdns/internal/mock"
	"github.com/semihalev/sdns/middleware"
	"github.com/semihalev/sdns/middleware/cache"
)

// hunt2ChainQueryer runs an internal sub-query through the same cache+resolver
// chain the client request went through, which is what the production
// pipeline queryer does for the cache's CNAME chase.
type hunt2ChainQueryer struct {
	handlers []middleware.Handler
}

func (q hunt2ChainQueryer) Query(ctx context.Context, req *dns.Msg) (*dns.Msg, error) {
	w := mock.NewWriter("tcp", "127.0.0.255:0")
	ch := middleware.NewChain(q.handlers)
	ch.Reset(w, req)
	ch.Next(ctx)
	if !w.Written() {
		return nil, middleware.ErrNoResponse
	}
	return w.Msg(), nil
}

// hunt2AskPipeline resolves through cache -> resolver, the part of the
// production pipeline that assembles an alias answer.
func hunt2AskPipeline(t *testing.T, net *hermeticNet, qname string, qtype uint16) *dns.Msg {
	t.Helper()

	cfg := net.Config()
	cfg.CacheSize = 1024
	cfg.Expire = 600
	handler := net.handlerWithConfig(cfg)
	c := cache.New(cfg)
	t.Cleanup(c.Stop)

	handlers := []middleware.Handler{c, handler}
	c.SetQueryer(hunt2ChainQueryer{handlers: handlers})

	req := new(dns.Msg)
	req.SetQuestion(dns.Fqdn(qname), qtype)
	req.SetEdns0(dnsutil.DefaultMsgSize, true)
	req.RecursionDesired = true

	w := mock.NewWriter("tcp", "192.0.2.1:53000")
	ch := middleware.NewChain(handlers)
	ch.Reset(w, req)
	ch.Next(context.Background())
	if !w.Written() {
		t.Fatal("the pipeline wrote no reply")
	}
	return w.Msg()
}

// The alias is signed and validates. Its target lives in another signed zone
// whose server answers without signatures: that response is on the
// resolution path of "www.alias.test. A" and it is bogus, so a validating
// client has to be told SERVFAIL. Handing back the lone CNAME as a finished
// NOERROR answer (and with AD=1 at that) turns a validation failure into
// "this name has no address", authenticated.
func TestHermeticDNSSECBogusCNAMETargetFailsClosed(t *testing.T) {
	net := newHermeticNet(t)

	alias := net.Delegate("alias.test.")
	cname := mustRR(t, "www.alias.test. 300 IN CNAME www.bogus.test.")
	// The fixture does no alias processing of its own: publish what an
	// authority answers for "www.alias.test. A" — the CNAME and its RRSIG.
	alias.server.serve("www.alias.test.", dns.TypeA, cname, alias.key.sign(t, []dns.RR{cname}))

	bogus := net.Delegate("bogus.test.")
	bogus.ServeUnsigned(mustRR(t, "www.bogus.test. 300 IN A 192.0.2.20"))

	// Control: asked directly, the target is refused.
	direct := hunt2AskPipeline(t, net, "www.bogus.test.", dns.TypeA)
	if direct.Rcode != dns.RcodeServerFailure {
		t.Fatalf("control: www.bogus.test. A rcode = %s, want SERVFAIL",
			dns.RcodeToString[direct.Rcode])
	}

	resp := hunt2AskPipeline(t, net, "www.alias.test.", dns.TypeA)

	if resp.Rcode != dns.RcodeServerFailure {
		t.Fatalf("rcode = %s AD=%v answer=%v, want SERVFAIL: the alias target's "+
			"answer failed validation, so the question has no validated answer",
			dns.RcodeToString[resp.Rcode], resp.AuthenticatedData, resp.Answer)
	}
	if resp.AuthenticatedData {
		t.Fatal("a reply whose target leg was bogus must not carry AD")
	}
}
