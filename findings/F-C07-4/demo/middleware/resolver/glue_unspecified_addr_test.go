package resolver

import (
	"context"
	"net/netip"
	"strconv"
	"sync/atomic"
	"testing"
	"time"

	"github.com/miekg/dns"
	"github.com/semihalev/sdns/internal/authority"
)

// A nameserver address learned from an upstream must never be one that makes
// the resolver talk to the host it runs on. usableAddr filters 127.0.0.0/8,
// ::1 and the addresses of local interfaces, but the unspecified address
// (0.0.0.0, ::, and ::ffff:0.0.0.0) passes — and a datagram sent to it is
// delivered to the local host exactly like one sent to 127.0.0.1.
func TestGlue_UnspecifiedAddressIsLoopback(t *testing.T) {
	base := makeTestConfig()
	cfg := *base
	cfg.DNSSEC = "off"
	cfg.IPv6Access = true
	r := newWiredTestResolver(&cfg)

	// 1. The referral path: in-bailiwick glue naming the unspecified address.
	referral := new(dns.Msg)
	referral.SetQuestion("www.child.example.", dns.TypeA)
	referral.Response = true
	referral.Ns = []dns.RR{
		mustRR(t, "child.example. 300 IN NS ns1.child.example."),
		mustRR(t, "child.example. 300 IN NS ns2.child.example."),
		mustRR(t, "child.example. 300 IN NS ns3.child.example."),
	}
	referral.Extra = []dns.RR{
		mustRR(t, "ns1.child.example. 300 IN A 0.0.0.0"),
		mustRR(t, "ns2.child.example. 300 IN AAAA ::"),
		mustRR(t, "ns3.child.example. 300 IN AAAA ::ffff:0.0.0.0"),
	}
	info := r.extractDelegationInfo(referral)
	servers, foundv4, foundv6 := r.checkGlueRR(referral, info.hosts, 1 /* asked at example. */)
	for _, s := range servers.List {
		t.Errorf("referral glue produced upstream %s, which the OS delivers to this host", s.Addr)
	}
	if len(foundv4)+len(foundv6) != 0 {
		t.Errorf("glue accepted for v4=%v v6=%v", foundv4, foundv6)
	}
	for _, ns := range []string{"ns1.child.example.", "ns2.child.example.", "ns3.child.example."} {
		if addrs, ok := r.getIPv4Cache(ns); ok {
			t.Errorf("glue cache (v4) holds %v for %s", addrs, ns)
		}
		if addrs, ok := r.getIPv6Cache(ns); ok {
			t.Errorf("glue cache (v6) holds %v for %s", addrs, ns)
		}
	}

	// 2. The NS-address lookup path.
	answer := new(dns.Msg)
	answer.SetQuestion("ns.hoster.example.", dns.TypeA)
	answer.Response = true
	answer.Answer = []dns.RR{
		mustRR(t, "ns.hoster.example. 300 IN A 0.0.0.0"),
		mustRR(t, "ns.hoster.example. 300 IN AAAA ::"),
	}
	if addrs, ok := searchAddrs(answer); ok || len(addrs) != 0 {
		t.Errorf("searchAddrs accepted %v as nameserver addresses", addrs)
	}

	// 3. Why it matters: nothing after the filter looks at the address again,
	//    and the resolver's own dial path delivers a query for such a server to
	//    a listener bound to 127.0.0.1 only. (Glue always means port 53, which a
	//    test cannot bind, so the server is built with the listener's port.)
	var hits int64
	loopAddr, stop := startMockAuth(t, &hits, func(q dns.Question) *dns.Msg {
		m := &dns.Msg{}
		m.Authoritative = true
		m.Answer = []dns.RR{mustRR(t, q.Name+" 30 IN A 198.51.100.7")}
		return m
	})
	defer stop()
	loop := netip.MustParseAddrPort(loopAddr)
	if !loop.Addr().IsLoopback() {
		t.Fatalf("fixture listener is not on loopback: %s", loopAddr)
	}

	for _, unspecified := range []string{"0.0.0.0", "::"} {
		addr := netip.MustParseAddr(unspecified)
		if _, valid := usableAddr(addr.AsSlice()); !valid {
			continue // filtered: the server below could never be built from upstream data
		}
		if addr.Is6() {
			// the loopback fixture is IPv4 only
			continue
		}
		srv := authority.NewServerFromAddrPort(netip.AddrPortFrom(addr, loop.Port()))
		req := new(dns.Msg)
		req.SetQuestion("probe.example.", dns.TypeA)
		ctx, cancel := context.WithTimeout(context.Background(), 2*time.Second)
		rs := &resolveState{req: req}
		before := atomic.LoadInt64(&hits)
		resp, err := r.exchange(ctx, rs, nil, "udp", req, srv, 0)
		cancel()
		if err == nil && resp != nil && atomic.LoadInt64(&hits) > before {
			t.Errorf("a query for upstream %s was answered by the listener on 127.0.0.1:%s",
				srv.Addr, strconv.Itoa(int(loop.Port())))
		}
	}
}
