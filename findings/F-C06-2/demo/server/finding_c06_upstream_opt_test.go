package server

import (
	"context"
	"net"
	"testing"
	"time"

	"github.com/miekg/dns"
	"github.com/semihalev/sdns/config"
	"github.com/semihalev/sdns/internal/mock"
	"github.com/semihalev/sdns/middleware"
	"github.com/semihalev/sdns/middleware/defaults"
	"github.com/semihalev/sdns/middleware/forwarder"
)

// startOptionLeakingUpstream is a loopback upstream resolver that answers
// every query with a positive A record and an OPT record carrying options
// that belong to the upstream hop only: its own COOKIE, its own NSID, a
// PADDING block and a private-use option, under EDNS version 1.
func startOptionLeakingUpstream(t *testing.T) string {
	t.Helper()
	pc, err := net.ListenPacket("udp", "127.0.0.1:0")
	if err != nil {
		t.Fatalf("listen: %v", err)
	}
	mux := dns.NewServeMux()
	mux.HandleFunc(".", func(w dns.ResponseWriter, r *dns.Msg) {
		m := new(dns.Msg)
		m.SetReply(r)
		m.RecursionAvailable = true
		rr, _ := dns.NewRR(r.Question[0].Name + " 300 IN A 192.0.2.80")
		m.Answer = []dns.RR{rr}
		opt := &dns.OPT{Hdr: dns.RR_Header{Name: ".", Rrtype: dns.TypeOPT}}
		opt.SetUDPSize(1232)
		opt.SetVersion(1)
		opt.Option = []dns.EDNS0{
			&dns.EDNS0_COOKIE{Code: dns.EDNS0COOKIE, Cookie: "aaaaaaaaaaaaaaaabbbbbbbbbbbbbbbbbbbbbbbbbbbbbbbb"},
			&dns.EDNS0_NSID{Code: dns.EDNS0NSID, Nsid: "757073747265616d2d6e6f64652d37"}, // "upstream-node-7"
			&dns.EDNS0_PADDING{Padding: make([]byte, 16)},
			&dns.EDNS0_LOCAL{Code: 65001, Data: []byte("upstream-private")},
		}
		m.Extra = []dns.RR{opt}
		_ = w.WriteMsg(m)
	})
	s := &dns.Server{PacketConn: pc, Net: "udp", Handler: mux}
	go func() { _ = s.ActivateAndServe() }()
	t.Cleanup(func() { _ = s.Shutdown() })
	return pc.LocalAddr().String()
}

func newForwardingServer(t *testing.T, upstream string) *Server {
	t.Helper()
	middleware.Reset()
	t.Cleanup(middleware.Reset)
	// The production chain, with the forwarder as the terminal handler.
	defaults.RegisterUpTo("resolver")
	middleware.Register("forwarder", func(cfg *config.Config) middleware.Handler { return forwarder.New(cfg) })
	cfg := &config.Config{ //nolint:gosec // test fixture secret
		Bind:             "127.0.0.1:0",
		Expire:           600,
		CacheSize:        10240,
		CookieSecret:     "6c6f6f6b61686172646c6f6f6b6168617264",
		ForwarderServers: []string{upstream},
	}
	cfg.QueryTimeout.Duration = 5 * time.Second
	cfg.Timeout.Duration = 2 * time.Second
	middleware.Setup(cfg)
	return New(cfg)
}

// TestFindingC06UpstreamOptionsReachClient: a reply must stay within what
// the client negotiated — a server cookie only against a client cookie, no
// foreign options. The upstream's OPT is hop-by-hop state of the
// resolver-to-upstream leg and none of it may reach the client.
func TestFindingC06UpstreamOptionsReachClient(t *testing.T) {
	upstream := startOptionLeakingUpstream(t)

	t.Run("client sent a plain OPT", func(t *testing.T) {
		s := newForwardingServer(t, upstream)
		q := new(dns.Msg)
		q.SetQuestion("plain.leak.test.", dns.TypeA)
		q.SetEdns0(1232, false)

		mw := mock.NewWriter("udp", "203.0.113.7:4242")
		s.ServeMsg(context.Background(), mw, q)
		resp := mw.Msg()
		if resp == nil || resp.Rcode != dns.RcodeSuccess || len(resp.Answer) != 1 {
			t.Fatalf("no positive reply: %v", resp)
		}
		opt := resp.IsEdns0()
		if opt == nil {
			t.Fatalf("reply lost its OPT: %v", resp)
		}
		if opt.Version() != 0 {
			t.Errorf("reply OPT advertises EDNS version %d (the upstream's), want 0", opt.Version())
		}
		for _, o := range opt.Option {
			t.Errorf("client sent no EDNS option, reply carries option code %d: %s", o.Option(), o.String())
		}
	})

	t.Run("client sent its own cookie", func(t *testing.T) {
		s := newForwardingServer(t, upstream)
		q := new(dns.Msg)
		q.SetQuestion("cookie.leak.test.", dns.TypeA)
		q.SetEdns0(1232, false)
		q.IsEdns0().Option = append(q.IsEdns0().Option,
			&dns.EDNS0_COOKIE{Code: dns.EDNS0COOKIE, Cookie: "0123456789abcdef"})

		mw := mock.NewWriter("udp", "203.0.113.7:4242")
		s.ServeMsg(context.Background(), mw, q)
		resp := mw.Msg()
		if resp == nil || resp.Rcode != dns.RcodeSuccess {
			t.Fatalf("no positive reply: %v", resp)
		}
		opt := resp.IsEdns0()
		if opt == nil {
			t.Fatalf("reply lost its OPT: %v", resp)
		}
		cookies := 0
		for _, o := range opt.Option {
			c, ok := o.(*dns.EDNS0_COOKIE)
			if !ok {
				t.Errorf("reply carries an option the client never asked for: code %d: %s", o.Option(), o.String())
				continue
			}
			cookies++
			if len(c.Cookie) < 16 || c.Cookie[:16] != "0123456789abcdef" {
				t.Errorf("reply carries a cookie that does not answer the client's: %s", c.Cookie)
			}
		}
		if cookies != 1 {
			t.Errorf("reply carries %d COOKIE options, want exactly the server cookie for the client's", cookies)
		}
	})
}
