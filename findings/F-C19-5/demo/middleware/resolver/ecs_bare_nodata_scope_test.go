package resolver

import (
	"context"
	"net"
	"sync/atomic"
	"testing"
	"time"

	"github.com/miekg/dns"
	"github.com/semihalev/sdns/config"
	"github.com/semihalev/sdns/internal/mock"
	"github.com/semihalev/sdns/middleware"
	cachemw "github.com/semihalev/sdns/middleware/cache"
	"github.com/semihalev/sdns/middleware/edns"
)

// startECSAuth is a loopback authority whose handler sees the whole query,
// so it can tailor its reply to the client-subnet option and declare a scope.
func startECSAuth(t *testing.T, handle func(r *dns.Msg) *dns.Msg) (string, func()) {
	t.Helper()
	pc, err := net.ListenPacket("udp", "127.0.0.1:0")
	if err != nil {
		t.Fatalf("listen udp: %v", err)
	}
	mux := dns.NewServeMux()
	mux.HandleFunc(".", func(w dns.ResponseWriter, r *dns.Msg) {
		if len(r.Question) != 1 {
			return
		}
		_ = w.WriteMsg(handle(r))
	})
	s := &dns.Server{Net: "udp", PacketConn: pc, Handler: mux}
	go func() { _ = s.ActivateAndServe() }()
	time.Sleep(10 * time.Millisecond)
	return pc.LocalAddr().String(), func() { _ = s.Shutdown() }
}

func querySubnet(m *dns.Msg) *dns.EDNS0_SUBNET {
	opt := m.IsEdns0()
	if opt == nil {
		return nil
	}
	for _, o := range opt.Option {
		if sub, ok := o.(*dns.EDNS0_SUBNET); ok {
			return sub
		}
	}
	return nil
}

// TestECSScopedBareNODATAStaysWithItsAudience: an authority tailors
// www.geo. AAAA by client subnet. For 198.51.100.0/24 it says "no AAAA here"
// the way many load-balancer appliances do — NOERROR, empty answer, no SOA —
// and declares SCOPE /24 on it. For 203.0.113.0/24 it has an address, also
// SCOPE /24. The first audience's scoped denial must not be what the second
// audience is served.
func TestECSScopedBareNODATAStaysWithItsAudience(t *testing.T) {
	softNeg := func(r *dns.Msg, zone string) *dns.Msg {
		m := new(dns.Msg)
		m.SetReply(r)
		m.Authoritative = true
		soa := zone + " 30 IN SOA ns." + zone + " hostmaster." + zone + " 1 30 30 30 30"
		if zone == "." {
			soa = ". 30 IN SOA a.root. hostmaster.root. 1 30 30 30 30"
		}
		m.Ns = []dns.RR{mustRR(t, soa)}
		return m
	}

	var tailored atomic.Int64
	geoAddr, stopGeo := startECSAuth(t, func(r *dns.Msg) *dns.Msg {
		q := r.Question[0]
		if dns.CanonicalName(q.Name) != "www.geo." || q.Qtype != dns.TypeAAAA {
			return softNeg(r, "geo.")
		}
		tailored.Add(1)
		m := new(dns.Msg)
		m.SetReply(r)
		m.Authoritative = true
		sub := querySubnet(r)
		if sub == nil {
			// Nobody told us where the client is: the default answer.
			m.Answer = []dns.RR{mustRR(t, "www.geo. 300 IN AAAA 2001:db8::ffff")}
			return m
		}
		// RFC 7871 §7.2.1: echo FAMILY, SOURCE and ADDRESS, declare SCOPE.
		echo := &dns.EDNS0_SUBNET{
			Code: dns.EDNS0SUBNET, Family: sub.Family,
			SourceNetmask: sub.SourceNetmask, SourceScope: 24,
			Address: sub.Address,
		}
		opt := &dns.OPT{Hdr: dns.RR_Header{Name: ".", Rrtype: dns.TypeOPT}}
		opt.SetUDPSize(1232)
		opt.Option = []dns.EDNS0{echo}
		m.Extra = []dns.RR{opt}
		if net.ParseIP("198.51.100.0").Equal(sub.Address) {
			// This audience has no AAAA. Bare NODATA: no SOA.
			return m
		}
		m.Answer = []dns.RR{mustRR(t, "www.geo. 300 IN AAAA 2001:db8::1")}
		return m
	})
	defer stopGeo()

	rootAddr, stopRoot := startECSAuth(t, func(r *dns.Msg) *dns.Msg {
		q := r.Question[0]
		name := dns.CanonicalName(q.Name)
		if name == "." && q.Qtype == dns.TypeNS {
			m := new(dns.Msg)
			m.SetReply(r)
			m.Authoritative = true
			m.Answer = []dns.RR{mustRR(t, ". 3600 IN NS a.root.")}
			return m
		}
		if q.Qtype != dns.TypeDS && dns.IsSubDomain("geo.", name) {
			m := new(dns.Msg)
			m.SetReply(r)
			m.Ns = []dns.RR{mustRR(t, "geo. 3600 IN NS ns.geo.")}
			m.Extra = []dns.RR{mustRR(t, "ns.geo. 3600 IN A 192.0.2.31")}
			return m
		}
		return softNeg(r, ".")
	})
	defer stopRoot()

	remap := map[string]string{"192.0.2.31:53": geoAddr}
	mapper := func(addr string) string {
		if to, ok := remap[addr]; ok {
			return to
		}
		return addr
	}

	base := makeTestConfig()
	cfg := *base
	cfg.RootServers = []string{rootAddr}
	cfg.Root6Servers = nil
	cfg.DNSSEC = "off"
	cfg.IPv6Access = false
	cfg.CacheSize = 1024
	cfg.RateLimit = 0
	cfg.ECS = config.ECSConfig{
		Enabled:      true,
		ForwardV4Max: 24,
		ForwardV6Max: 56,
		MinScopeV4:   24,
		MinScopeV6:   56,
	}

	h := New(&cfg)
	h.resolver.resolveTarget.Store(&mapper)

	em := edns.New(&cfg)
	cm := cachemw.New(&cfg)
	defer cm.Stop()
	sub := &chainQueryer{handlers: []middleware.Handler{em, cm, h}}
	cm.SetQueryer(sub)
	cm.SetPrefetchQueryer(&chainQueryer{handlers: []middleware.Handler{em, h}})
	var q middleware.Queryer = sub
	h.resolver.queryer.Store(&q)

	ask := func(clientIP, subnet string) *dns.Msg {
		t.Helper()
		req := new(dns.Msg)
		req.SetQuestion("www.geo.", dns.TypeAAAA)
		req.SetEdns0(1232, false)
		req.IsEdns0().Option = append(req.IsEdns0().Option, &dns.EDNS0_SUBNET{
			Code: dns.EDNS0SUBNET, Family: 1, SourceNetmask: 24,
			Address: net.ParseIP(subnet).To4(),
		})
		w := mock.NewWriter("udp", clientIP+":5353")
		ch := middleware.NewChain([]middleware.Handler{em, cm, h})
		ch.Reset(w, req)
		ch.Next(context.Background())
		if !w.Written() {
			t.Fatalf("client %s: no response written", clientIP)
		}
		return w.Msg()
	}

	// Audience one: the authority's scoped "nothing for you".
	first := ask("198.51.100.7", "198.51.100.0")
	if first.Rcode != dns.RcodeSuccess || len(first.Answer) != 0 {
		t.Fatalf("198.51.100.0/24: want the authority's empty NOERROR, got rcode=%s answer=%v",
			dns.RcodeToString[first.Rcode], first.Answer)
	}
	if got := tailored.Load(); got != 1 {
		t.Fatalf("authority asked %d times for the first audience, want 1", got)
	}

	// Audience two, a different /24: the authority has an address for it.
	second := ask("203.0.113.9", "203.0.113.0")
	var got string
	for _, rr := range second.Answer {
		if aaaa, ok := rr.(*dns.AAAA); ok {
			got = aaaa.AAAA.String()
		}
	}
	if got != "2001:db8::1" {
		t.Fatalf("203.0.113.0/24 was served the answer the authority scoped to 198.51.100.0/24: "+
			"rcode=%s answer=%v (authority asked %d times in total; want 2001:db8::1 and 2 asks)",
			dns.RcodeToString[second.Rcode], second.Answer, tailored.Load())
	}
}
