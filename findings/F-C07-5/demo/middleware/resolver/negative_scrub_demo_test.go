package resolver

import (
	"context"
	"testing"
	"time"

	"github.com/miekg/dns"
	"github.com/semihalev/sdns/internal/authority"
	"github.com/semihalev/sdns/internal/cache"
	"github.com/semihalev/sdns/internal/dnsutil"
)

// A server is believed only about the zone it was asked for. The positive
// path drops the upstream's authority and additional sections
// (clearAdditional) and the DNAME NODATA/NXDOMAIN arms do the same; a plain
// negative reply (NODATA, NXDOMAIN, or a bare error rcode) from an unsigned
// zone is handed to the client -- and to the cache -- with whatever the
// zone's server put into those sections, records about other people's names
// included.
func TestNegativeReplyCarriesNoRecordsFromOutsideTheAskedZone(t *testing.T) {
	const zone = "attacker.test."
	soa := "attacker.test. 60 IN SOA ns.attacker.test. h.attacker.test. 1 60 60 60 60"

	cases := []struct {
		name  string
		qname string
		qtype uint16
		reply func(t *testing.T) *dns.Msg
		rcode int
	}{
		{
			name:  "NODATA",
			qname: "www.attacker.test.",
			qtype: dns.TypeAAAA,
			rcode: dns.RcodeSuccess,
			reply: func(t *testing.T) *dns.Msg {
				m := &dns.Msg{}
				m.Authoritative = true
				m.Ns = []dns.RR{
					mustRR(t, soa),
					mustRR(t, "www.bank.example. 3600 IN A 6.6.6.6"),
					mustRR(t, "bank.example. 3600 IN SOA ns.evil.test. h.evil.test. 1 60 60 60 86400"),
				}
				m.Extra = []dns.RR{
					mustRR(t, "www.bank.example. 3600 IN A 6.6.6.6"),
					mustRR(t, "ns1.bank.example. 3600 IN AAAA 2001:db8::666"),
				}
				return m
			},
		},
		{
			name:  "NXDOMAIN",
			qname: "nope.attacker.test.",
			qtype: dns.TypeA,
			rcode: dns.RcodeNameError,
			reply: func(t *testing.T) *dns.Msg {
				m := &dns.Msg{}
				m.Authoritative = true
				m.Rcode = dns.RcodeNameError
				m.Ns = []dns.RR{
					mustRR(t, soa),
					mustRR(t, "login.bank.example. 3600 IN CNAME evil.attacker.test."),
				}
				m.Extra = []dns.RR{
					mustRR(t, "login.bank.example. 3600 IN A 6.6.6.6"),
				}
				return m
			},
		},
		{
			name:  "bare NXDOMAIN with additional",
			qname: "bare.attacker.test.",
			qtype: dns.TypeA,
			rcode: dns.RcodeNameError,
			reply: func(t *testing.T) *dns.Msg {
				m := &dns.Msg{}
				m.Authoritative = true
				m.Rcode = dns.RcodeNameError
				m.Extra = []dns.RR{
					mustRR(t, "login.bank.example. 3600 IN A 6.6.6.6"),
				}
				return m
			},
		},
	}

	for _, tc := range cases {
		t.Run(tc.name, func(t *testing.T) {
			var hits int64
			addr, stop := startMockAuth(t, &hits, func(dns.Question) *dns.Msg { return tc.reply(t) })
			defer stop()

			cfg := makeTestConfig()
			cfg.QueryTimeout.Duration = 10 * time.Second
			r := newWiredTestResolver(cfg)
			h := &DNSHandler{resolver: r, cfg: cfg}

			servers := &authority.Servers{
				Zone:            zone,
				List:            []*authority.Server{authority.NewServer(addr, authority.IPv4)},
				CheckingDisable: true,
			}
			nsq := dns.Question{Name: zone, Qtype: dns.TypeNS, Qclass: dns.ClassINET}
			r.delegations.Set(cache.Key(nsq, true), nil, servers, time.Hour)

			req := new(dns.Msg)
			req.SetQuestion(tc.qname, tc.qtype)
			req.SetEdns0(dnsutil.DefaultMsgSize, true)
			req.CheckingDisabled = true

			ctx, cancel := context.WithTimeout(context.Background(), 5*time.Second)
			defer cancel()
			ctx = context.WithValue(ctx, contextKeyRequestID, req.Id)

			resp := h.handle(ctx, req)
			if resp == nil {
				t.Fatal("no response")
			}
			if resp.Rcode != tc.rcode {
				t.Fatalf("rcode = %s, want %s", dns.RcodeToString[resp.Rcode], dns.RcodeToString[tc.rcode])
			}
			if hits == 0 {
				t.Fatal("the zone's server was never asked")
			}

			check := func(section string, rrs []dns.RR) {
				for _, rr := range rrs {
					if rr.Header().Rrtype == dns.TypeOPT {
						continue
					}
					if !dnsutil.NameInZone(dns.CanonicalName(rr.Header().Name), zone) {
						t.Errorf("%s section of the %s reply for %s relays a record the servers of %s have no authority over: %s",
							section, tc.name, tc.qname, zone, rr.String())
					}
				}
			}
			check("answer", resp.Answer)
			check("authority", resp.Ns)
			check("additional", resp.Extra)

			if tc.name != "bare NXDOMAIN with additional" {
				hasSOA := false
				for _, rr := range resp.Ns {
					if soa, ok := rr.(*dns.SOA); ok && dns.CanonicalName(soa.Hdr.Name) == zone {
						hasSOA = true
					}
				}
				if !hasSOA {
					t.Errorf("the zone's own SOA must still be relayed, authority = %v", resp.Ns)
				}
			}
		})
	}
}
