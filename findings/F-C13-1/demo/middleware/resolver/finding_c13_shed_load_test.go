package resolver

import (
	"context"
	"strings"
	"sync/atomic"
	"testing"
	"time"

	"github.com/miekg/dns"
	"github.com/semihalev/sdns/config"
	"github.com/semihalev/sdns/internal/dnsutil"
	"github.com/semihalev/sdns/internal/mock"
	"github.com/semihalev/sdns/middleware"
	cachemw "github.com/semihalev/sdns/middleware/cache"
)

// c13Pipeline builds the production shape cache -> resolver with the real
// registry, the real sub-pipeline Queryer and the real shared Store, exactly
// as middleware.Setup's auto-wiring does, but private to one test.
type c13Pipeline struct {
	pipe  *middleware.Pipeline
	cache *cachemw.Cache
	h     *DNSHandler
}

func newC13Pipeline(t *testing.T, cfg *config.Config, remap map[string]string) *c13Pipeline {
	t.Helper()

	var (
		cm *cachemw.Cache
		h  *DNSHandler
	)
	reg := middleware.NewRegistry()
	reg.Register("cache", func(cfg *config.Config) middleware.Handler {
		cm = cachemw.New(cfg)
		return cm
	})
	reg.Register("resolver", func(cfg *config.Config) middleware.Handler {
		h = New(cfg)
		return h
	})
	pipe := reg.Build(cfg)
	t.Cleanup(cm.Stop)

	mapper := func(addr string) string {
		if to, ok := remap[addr]; ok {
			return to
		}
		return addr
	}
	h.resolver.resolveTarget.Store(&mapper)

	q := middleware.NewPipelineQueryer(pipe)
	h.SetQueryer(q)
	h.SetStore(cm.Store())
	cm.SetQueryer(q)
	cm.SetPrefetchQueryer(middleware.NewPipelineQueryer(pipe.SubPipeline("cache")))

	return &c13Pipeline{pipe: pipe, cache: cm, h: h}
}

func (p *c13Pipeline) ask(t *testing.T, name string, qtype uint16) *dns.Msg {
	t.Helper()
	req := new(dns.Msg)
	req.SetQuestion(name, qtype)
	req.SetEdns0(1232, false)
	w := mock.NewWriter("udp", "127.0.0.1:0")
	ch := p.pipe.NewChain()
	ch.Reset(w, req)
	ch.Next(context.Background())
	p.pipe.PutChain(ch)
	if !w.Written() {
		t.Fatalf("%s: no response written", name)
	}
	return w.Msg()
}

// waitC13Primed waits until the resolver's one background root-priming
// lookup (". NS", started by NewResolver) has come and gone, so that it cannot
// hold or take a capacity slot while the test stages its own occupancy.
func waitC13Primed(t *testing.T, r *Resolver, primed *atomic.Int64) {
	t.Helper()
	deadline := time.Now().Add(5 * time.Second)
	for time.Now().Before(deadline) {
		if primed.Load() > 0 && len(r.resolutionSlots) == 0 && len(r.maxConcurrent) == 0 {
			time.Sleep(50 * time.Millisecond)
			if len(r.resolutionSlots) == 0 && len(r.maxConcurrent) == 0 {
				return
			}
		}
		time.Sleep(5 * time.Millisecond)
	}
	t.Fatal("background root priming did not settle")
}

func c13EDE(m *dns.Msg) string {
	if ede := dnsutil.GetEDE(m); ede != nil {
		return dns.ExtendedErrorCodeToString[ede.InfoCode] + " / " + ede.ExtraText
	}
	return "<none>"
}

func c13Config(root string) *config.Config {
	base := makeTestConfig()
	cfg := *base
	cfg.RootServers = []string{root}
	cfg.Root6Servers = nil
	cfg.DNSSEC = "off"
	cfg.IPv6Access = false
	cfg.CacheSize = 1024
	cfg.RateLimit = 0
	cfg.MaxConcurrentQueries = 4
	return &cfg
}

// The resolver sheds a lookup because every in-flight resolution slot of THIS
// process is taken ("Resolver at in-flight resolution capacity"). That says
// nothing about the question or its authorities, yet the SERVFAIL it turns
// into is written back as a shared RFC 9520 question failure: once capacity
// is available again the very same question is still refused from the
// failure cache, with EDE 13 and without a single upstream packet, although
// its authority is healthy and was never asked.
func TestFindingC13ShedLoadBecomesCachedQuestionFailure(t *testing.T) {
	var ignore int64
	var wwwQueries, primed atomic.Int64
	rootAddr, stopRoot := startMockAuth(t, &ignore, func(q dns.Question) *dns.Msg {
		m := &dns.Msg{}
		m.Authoritative = true
		switch {
		case dns.CanonicalName(q.Name) == "." && q.Qtype == dns.TypeNS:
			primed.Add(1)
			m.Answer = []dns.RR{mustRR(t, ". 3600 IN NS a.root.")}
		case dns.CanonicalName(q.Name) == "www.shed.test." && q.Qtype == dns.TypeA:
			wwwQueries.Add(1)
			m.Answer = []dns.RR{mustRR(t, "www.shed.test. 300 IN A 192.0.2.10")}
		default:
			m.Ns = []dns.RR{mustRR(t, ". 30 IN SOA a.root. hostmaster.root. 1 30 30 30 30")}
		}
		return m
	})
	defer stopRoot()

	p := newC13Pipeline(t, c13Config(rootAddr), nil)
	r := p.h.resolver
	waitC13Primed(t, r, &primed)

	// Every resolution slot is pinned by other requests' lookups (this is
	// precisely what cap(resolutionSlots) concurrent lookups waiting out a
	// silent authority do).
	for i := 0; i < cap(r.resolutionSlots); i++ {
		r.resolutionSlots <- struct{}{}
	}

	first := p.ask(t, "www.shed.test.", dns.TypeA)
	if first.Rcode != dns.RcodeServerFailure || !strings.Contains(c13EDE(first), "capacity") {
		t.Fatalf("precondition: want the load-shedding SERVFAIL, got rcode=%s ede=%s",
			dns.RcodeToString[first.Rcode], c13EDE(first))
	}
	if n := wwwQueries.Load(); n != 0 {
		t.Fatalf("precondition: shed lookup reached the authority %d times", n)
	}

	// The other requests finish: capacity is back.
	for i := 0; i < cap(r.resolutionSlots); i++ {
		<-r.resolutionSlots
	}

	if n := p.cache.Store().(*cachemw.Store).FailureLen(); n != 0 {
		t.Errorf("shed load created %d shared failure-cache state(s), want 0", n)
	}

	second := p.ask(t, "www.shed.test.", dns.TypeA)
	if second.Rcode != dns.RcodeSuccess || len(second.Answer) == 0 {
		t.Fatalf("after capacity returned: rcode=%s ede=%s upstream queries=%d; "+
			"want the healthy authority's answer (a shed lookup must not become a cached failure)",
			dns.RcodeToString[second.Rcode], c13EDE(second), wwwQueries.Load())
	}
}

// Same cause, larger blast radius. The delegation of child.test. is glueless
// (NS ns.other.test.). The address lookup for ns.other.test. is shed because
// the per-zone in-flight quota of other.test. is momentarily exhausted by
// other requests. The resolver then finds "no reachable authority" for
// child.test. and records a ZONE failure for it — although not one of
// child.test.'s servers was ever contacted. Every name below child.test. is
// then refused from the failure cache.
func TestFindingC13ShedLoadBecomesCachedZoneFailure(t *testing.T) {
	var ignore int64
	softNeg := func(zone string) *dns.Msg {
		m := &dns.Msg{}
		m.Authoritative = true
		m.Ns = []dns.RR{mustRR(t, zone+" 30 IN SOA ns."+zone+" hostmaster."+zone+" 1 30 30 30 30")}
		return m
	}

	// child.test. authority: answers every A below it.
	var childQueries atomic.Int64
	childAddr, stopChild := startMockAuth(t, &ignore, func(q dns.Question) *dns.Msg {
		if q.Qtype == dns.TypeA {
			childQueries.Add(1)
			m := &dns.Msg{}
			m.Authoritative = true
			m.Answer = []dns.RR{mustRR(t, dns.CanonicalName(q.Name)+" 300 IN A 192.0.2.99")}
			return m
		}
		return softNeg("child.test.")
	})
	defer stopChild()

	// other.test. authority: knows the address of ns.other.test.
	otherAddr, stopOther := startMockAuth(t, &ignore, func(q dns.Question) *dns.Msg {
		if q.Qtype == dns.TypeA && dns.CanonicalName(q.Name) == "ns.other.test." {
			m := &dns.Msg{}
			m.Authoritative = true
			m.Answer = []dns.RR{mustRR(t, "ns.other.test. 300 IN A 192.0.2.41")}
			return m
		}
		return softNeg("other.test.")
	})
	defer stopOther()

	var primed atomic.Int64
	rootAddr, stopRoot := startMockAuth(t, &ignore, func(q dns.Question) *dns.Msg {
		name := dns.CanonicalName(q.Name)
		switch {
		case name == "." && q.Qtype == dns.TypeNS:
			primed.Add(1)
			m := &dns.Msg{}
			m.Authoritative = true
			m.Answer = []dns.RR{mustRR(t, ". 3600 IN NS a.root.")}
			return m
		case q.Qtype == dns.TypeDS:
			return softNeg(".")
		case dns.IsSubDomain("child.test.", name):
			m := &dns.Msg{} // glueless referral
			m.Ns = []dns.RR{mustRR(t, "child.test. 300 IN NS ns.other.test.")}
			return m
		case dns.IsSubDomain("other.test.", name):
			m := &dns.Msg{}
			m.Ns = []dns.RR{mustRR(t, "other.test. 300 IN NS ns1.other.test.")}
			m.Extra = []dns.RR{mustRR(t, "ns1.other.test. 300 IN A 192.0.2.31")}
			return m
		}
		return softNeg(".")
	})
	defer stopRoot()

	p := newC13Pipeline(t, c13Config(rootAddr), map[string]string{
		"192.0.2.31:53": otherAddr,
		"192.0.2.41:53": childAddr,
	})
	r := p.h.resolver
	waitC13Primed(t, r, &primed)

	// A quota of one lookup per zone, with other.test. in a bucket of its own
	// (buckets are hashed with a per-limiter seed).
	var releaseOther func()
	for {
		l := newZoneInflightLimiter(1)
		rel, _ := l.acquire("other.test.")
		relRoot, okRoot := l.acquire(".")
		relChild, okChild := l.acquire("child.test.")
		if okRoot {
			relRoot()
		}
		if okChild {
			relChild()
		}
		if okRoot && okChild {
			// other.test.'s quota stays taken: another request's lookup at
			// that zone is in flight.
			r.zoneInflight = l
			releaseOther = rel
			break
		}
	}

	first := p.ask(t, "www.child.test.", dns.TypeA)
	if first.Rcode != dns.RcodeServerFailure {
		t.Fatalf("precondition: want SERVFAIL while the NS address lookup is shed, got rcode=%s",
			dns.RcodeToString[first.Rcode])
	}
	if n := childQueries.Load(); n != 0 {
		t.Fatalf("precondition: child.test. servers were contacted %d times", n)
	}

	// The other request's lookup finishes.
	releaseOther()

	if n := p.cache.Store().(*cachemw.Store).FailureLen(); n != 0 {
		t.Errorf("shed load created %d shared failure-cache state(s), want 0", n)
	}

	// A DIFFERENT name below child.test.: only a zone-wide failure can refuse it.
	second := p.ask(t, "api.child.test.", dns.TypeA)
	if second.Rcode != dns.RcodeSuccess || len(second.Answer) == 0 {
		t.Fatalf("after capacity returned: api.child.test. rcode=%s ede=%s, child.test. servers contacted=%d; "+
			"want the answer (no server of child.test. ever failed)",
			dns.RcodeToString[second.Rcode], c13EDE(second), childQueries.Load())
	}
}
