package resolver

import (
	"crypto"
	"net"
	"path/filepath"
	"sync"
	"testing"
	"time"

	"github.com/miekg/dns"
	"github.com/semihalev/sdns/config"
	"github.com/semihalev/sdns/internal/authority"
	"github.com/semihalev/sdns/middleware"
	"github.com/semihalev/sdns/middleware/resolver/dnssec"
)

// tcKSK is one root key-signing key of the scripted root used below.
type tcKSK struct {
	key    *dns.DNSKEY
	signer crypto.Signer
}

func tcNewKSK(t *testing.T) tcKSK {
	t.Helper()
	key := &dns.DNSKEY{
		Hdr:       dns.RR_Header{Name: rootzone, Rrtype: dns.TypeDNSKEY, Class: dns.ClassINET, Ttl: 3600},
		Flags:     dns.ZONE | dns.SEP,
		Protocol:  3,
		Algorithm: dns.ED25519,
	}
	priv, err := key.Generate(256)
	if err != nil {
		t.Fatalf("generate DNSKEY: %v", err)
	}
	return tcKSK{key: key, signer: priv.(crypto.Signer)}
}

func (k tcKSK) revoked() *dns.DNSKEY {
	r := *k.key
	r.Flags |= DNSKEYFlagRevoke
	return &r
}

// tcSign signs set with signer as the record `as` (the plain or the revoked
// form of the key: the two have different key tags).
func tcSign(t *testing.T, as *dns.DNSKEY, signer crypto.Signer, set []dns.RR) *dns.RRSIG {
	t.Helper()
	now := time.Now()
	sig := &dns.RRSIG{
		Hdr:         dns.RR_Header{Name: rootzone, Rrtype: dns.TypeRRSIG, Class: dns.ClassINET, Ttl: 3600},
		TypeCovered: dns.TypeDNSKEY,
		Algorithm:   as.Algorithm,
		OrigTtl:     3600,
		Expiration:  uint32(now.Add(24 * time.Hour).Unix()), //nolint:gosec // test timestamp
		Inception:   uint32(now.Add(-time.Hour).Unix()),     //nolint:gosec // test timestamp
		KeyTag:      as.KeyTag(),
		SignerName:  rootzone,
	}
	if err := sig.Sign(signer, set); err != nil {
		t.Fatalf("sign DNSKEY RRset: %v", err)
	}
	return sig
}

// tcRoot is a loopback "root server" that answers ". DNSKEY" with whatever
// the test scripted for the current refresh.
type tcRoot struct {
	mu     sync.Mutex
	answer []dns.RR
}

func (s *tcRoot) publish(rrs ...dns.RR) {
	s.mu.Lock()
	s.answer = rrs
	s.mu.Unlock()
}

func (s *tcRoot) ServeDNS(w dns.ResponseWriter, req *dns.Msg) {
	resp := new(dns.Msg)
	resp.SetReply(req)
	resp.Authoritative = true
	if req.Question[0].Name == rootzone && req.Question[0].Qtype == dns.TypeDNSKEY {
		s.mu.Lock()
		for _, rr := range s.answer {
			resp.Answer = append(resp.Answer, dns.Copy(rr))
		}
		s.mu.Unlock()
	}
	_ = w.WriteMsg(resp)
}

func tcStartRoot(t *testing.T) (*tcRoot, string) {
	t.Helper()
	pc, err := net.ListenPacket("udp", "127.0.0.1:0")
	if err != nil {
		t.Fatalf("listen: %v", err)
	}
	root := &tcRoot{}
	started := make(chan struct{})
	srv := &dns.Server{PacketConn: pc, Handler: root, NotifyStartedFunc: func() { close(started) }}
	go func() { _ = srv.ActivateAndServe() }()
	<-started
	t.Cleanup(func() { _ = srv.Shutdown() })
	return root, pc.LocalAddr().String()
}

// tcNewResolver builds a resolver the way NewResolver does, minus the
// background goroutine, so the test drives every AutoTA refresh itself.
func tcNewResolver(dir, rootAddr string, configured ...*dns.DNSKEY) *Resolver {
	cfg := &config.Config{
		DNSSEC:               "on",
		Maxdepth:             30,
		MaxConcurrentQueries: 16,
		Timeout:              config.Duration{Duration: 2 * time.Second},
		Directory:            dir,
	}
	workPolicy := middleware.MustRecursionWorkPolicyFromConfig(cfg.RecursionFirewall)
	servers := &authority.Servers{Zone: rootzone}
	servers.List = append(servers.List, authority.NewServer(rootAddr, authority.IPv4))

	r := &Resolver{
		cfg:             cfg,
		delegations:     authority.NewCache(),
		rootServers:     servers,
		dnssec:          true,
		netTimeout:      2 * time.Second,
		workPolicy:      workPolicy,
		sfGroup:         NewSingleflightWrapper(),
		circuitBreaker:  newCircuitBreaker(),
		cryptoLimiter:   dnssec.NewCryptoLimiter(workPolicy.MaxConcurrentCrypto),
		maxConcurrent:   make(chan struct{}, cfg.MaxConcurrentQueries),
		resolutionSlots: make(chan struct{}, cfg.MaxConcurrentQueries),
		zoneInflight:    newZoneInflightLimiter(16),
		probeSlots:      make(chan struct{}, maxInflightProbes),
	}
	for _, k := range configured {
		r.configuredRootKeys = append(r.configuredRootKeys, k)
	}
	r.rootKeys = startupTrustAnchors(dir, append([]dns.RR(nil), r.configuredRootKeys...))
	return r
}

func tcTrusts(r *Resolver, k *dns.DNSKEY) bool {
	r.RLock()
	defer r.RUnlock()
	for _, rr := range r.rootKeys {
		if dk, ok := rr.(*dns.DNSKEY); ok && dnskeyMaterialFP(dk) == dnskeyMaterialFP(k) {
			return true
		}
	}
	return false
}

// Two records of one fetched root DNSKEY RRset may carry the same 16-bit key
// tag. AutoTA must act on each of them; in particular the revoked form of a
// trusted anchor must not be lost because some other published key happens to
// share its tag.
//
// History:
//
//	refresh 1  root publishes {OLD, NEW} signed by both            -> both trusted
//	refresh 2  root publishes {OLD+REVOKE, NEW, NEXT}, signed by the revoked
//	           OLD (self-signature) and by NEW. NEXT is a freshly introduced
//	           KSK whose key tag equals the tag of OLD+REVOKE.
//	           RFC 5011 2.1: OLD is revoked immediately and permanently.
func TestAutoTARevocationNotShadowedBySameTagKeyInFetchedSet(t *testing.T) {
	// Birthday search for a pair (OLD, NEXT) with tag(OLD+REVOKE) == tag(NEXT).
	byRevokedTag := make(map[uint16]tcKSK)
	for len(byRevokedTag) < 512 {
		k := tcNewKSK(t)
		byRevokedTag[k.revoked().KeyTag()] = k
	}
	var oldKSK, nextKSK tcKSK
	for {
		n := tcNewKSK(t)
		if k, ok := byRevokedTag[n.key.KeyTag()]; ok && k.key.KeyTag() != n.key.KeyTag() {
			oldKSK, nextKSK = k, n
			break
		}
	}
	newKSK := tcNewKSK(t)
	for newKSK.key.KeyTag() == oldKSK.key.KeyTag() || newKSK.key.KeyTag() == nextKSK.key.KeyTag() {
		newKSK = tcNewKSK(t)
	}
	if oldKSK.revoked().KeyTag() != nextKSK.key.KeyTag() {
		t.Fatalf("setup: no tag collision")
	}

	for _, order := range []string{"revoked-first", "revoked-last"} {
		t.Run(order, func(t *testing.T) {
			dir := t.TempDir()
			root, addr := tcStartRoot(t)
			r := tcNewResolver(dir, addr, oldKSK.key, newKSK.key)

			set1 := []dns.RR{oldKSK.key, newKSK.key}
			root.publish(oldKSK.key, newKSK.key, tcSign(t, oldKSK.key, oldKSK.signer, set1), tcSign(t, newKSK.key, newKSK.signer, set1))
			r.AutoTA()
			if !tcTrusts(r, oldKSK.key) || !tcTrusts(r, newKSK.key) {
				t.Fatalf("precondition: both configured anchors must be trusted after refresh 1")
			}

			set2 := []dns.RR{oldKSK.revoked(), newKSK.key, nextKSK.key}
			answer := []dns.RR{oldKSK.revoked(), newKSK.key, nextKSK.key}
			if order == "revoked-last" {
				answer = []dns.RR{nextKSK.key, newKSK.key, oldKSK.revoked()}
			}
			answer = append(answer, tcSign(t, oldKSK.revoked(), oldKSK.signer, set2), tcSign(t, newKSK.key, newKSK.signer, set2))
			root.publish(answer...)
			r.AutoTA()

			if !tcTrusts(r, newKSK.key) {
				t.Fatalf("the surviving anchor must stay trusted")
			}
			if tcTrusts(r, oldKSK.key) {
				t.Errorf("anchor %d published its self-signed revocation (tag %d) and is still a trust anchor: the new key sharing tag %d stood in for it",
					oldKSK.key.KeyTag(), oldKSK.revoked().KeyTag(), nextKSK.key.KeyTag())
			}
			tombstones, err := readTombstones(filepath.Join(dir, tombstoneFile))
			if err != nil {
				t.Fatalf("read tombstones: %v", err)
			}
			if _, ok := tombstones[dnskeyMaterialFP(oldKSK.key)]; !ok {
				t.Errorf("revocation of %d left no tombstone", oldKSK.key.KeyTag())
			}
			state, err := readFromTAFile(filepath.Join(dir, stateFile))
			if err != nil {
				t.Fatalf("read state: %v", err)
			}
			pending := false
			for _, ta := range state {
				if dnskeyMaterialFP(ta.DNSKey) == dnskeyMaterialFP(nextKSK.key) && ta.State == StateAddPend {
					pending = true
				}
			}
			if !pending {
				t.Errorf("the newly published key %d did not start its add hold-down", nextKSK.key.KeyTag())
			}
		})
	}
}
