package resolver

import (
	"testing"

	"github.com/miekg/dns"
)

// The DS at the parent authenticates one key of the child: the key whose
// digest it carries. RFC 4035 §5.2 lets that key, and only that key (or
// another one a DS also names), vouch for the child's DNSKEY RRset. A key that
// merely appears in the RRset vouches for nothing — it is part of the data
// still waiting to be authenticated.
//
// The fixture below is what an on-path attacker can build without any private
// key of the victim zone: the genuine, DS-matched KSK copied verbatim from the
// real DNSKEY RRset, the attacker's own key appended beside it, and the whole
// set plus the forged data signed by the attacker's key alone.

// servedBy replaces what the zone returns for one RRset with rrs and a single
// signature made by signer.
func servedBy(t *testing.T, z *hermeticZone, signer hermeticKey, rrs ...dns.RR) {
	t.Helper()
	hdr := rrs[0].Header()
	set := append(append([]dns.RR{}, rrs...), signer.sign(t, rrs))
	z.server.serve(hdr.Name, hdr.Rrtype, set...)
}

func TestHermeticDNSKEYSetMustBeSignedByDSMatchedKey(t *testing.T) {
	net := newHermeticNet(t)
	zone := net.Delegate("hijack.test.")

	// A key the parent's DS says nothing about.
	rogue := newHermeticKey(t, "hijack.test.")
	if rogue.key.KeyTag() == zone.key.key.KeyTag() {
		t.Skip("rogue key collided with the genuine key tag")
	}

	// DNSKEY RRset: genuine KSK + rogue key, signed only by the rogue key.
	servedBy(t, zone, rogue, zone.key.key, rogue.key)
	// Forged data, signed only by the rogue key.
	servedBy(t, zone, rogue, mustRR(t, "www.hijack.test. 300 IN A 203.0.113.66"))

	resp := hermeticAsk(t, net.Handler(), "www.hijack.test.", dns.TypeA)

	if resp.Rcode != dns.RcodeServerFailure {
		t.Errorf("rcode = %s, want SERVFAIL: the DNSKEY RRset is signed only by a "+
			"key no DS vouches for, so nothing below it is authenticated",
			dns.RcodeToString[resp.Rcode])
	}
	if resp.AuthenticatedData {
		t.Errorf("forged data came back with AD=1")
	}
	if len(resp.Answer) != 0 {
		t.Errorf("forged answer relayed to the client: %v", resp.Answer)
	}
}

// The same forged DNSKEY RRset asked for directly.
func TestHermeticDNSKEYQueryMustBeSignedByDSMatchedKey(t *testing.T) {
	net := newHermeticNet(t)
	zone := net.Delegate("hijack2.test.")

	rogue := newHermeticKey(t, "hijack2.test.")
	if rogue.key.KeyTag() == zone.key.key.KeyTag() {
		t.Skip("rogue key collided with the genuine key tag")
	}
	servedBy(t, zone, rogue, zone.key.key, rogue.key)

	resp := hermeticAsk(t, net.Handler(), "hijack2.test.", dns.TypeDNSKEY)

	if resp.Rcode != dns.RcodeServerFailure {
		t.Errorf("rcode = %s, want SERVFAIL", dns.RcodeToString[resp.Rcode])
	}
	if resp.AuthenticatedData {
		t.Errorf("DNSKEY RRset signed only by a non-DS key came back with AD=1")
	}
	if len(resp.Answer) != 0 {
		t.Errorf("forged DNSKEY RRset relayed to the client (%d records)", len(resp.Answer))
	}
}

// The legitimate split-key layout has to keep validating: the KSK (named by
// the DS) signs the DNSKEY RRset, the ZSK (named by nothing) signs the data.
func TestHermeticKSKZSKSplitStillValidates(t *testing.T) {
	net := newHermeticNet(t)
	zone := net.Delegate("split.test.")

	zsk := newHermeticKey(t, "split.test.")
	zsk.key.Flags = 256
	if zsk.key.KeyTag() == zone.key.key.KeyTag() {
		t.Skip("zsk collided with the ksk key tag")
	}

	servedBy(t, zone, zone.key, zone.key.key, zsk.key)
	servedBy(t, zone, zsk, mustRR(t, "www.split.test. 300 IN A 192.0.2.77"))

	resp := hermeticAsk(t, net.Handler(), "www.split.test.", dns.TypeA)

	if resp.Rcode != dns.RcodeSuccess {
		t.Fatalf("rcode = %s, want NOERROR", dns.RcodeToString[resp.Rcode])
	}
	if !resp.AuthenticatedData {
		t.Fatal("KSK-signed DNSKEY RRset + ZSK-signed data must validate")
	}
	if len(resp.Answer) == 0 {
		t.Fatal("no answer")
	}
}
