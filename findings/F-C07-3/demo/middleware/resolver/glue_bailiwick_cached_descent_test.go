package resolver

import (
	"context"
	"net/netip"
	"sync"
	"sync/atomic"
	"testing"
	"time"

	"github.com/miekg/dns"
	"github.com/semihalev/sdns/internal/authority"
	"github.com/semihalev/sdns/internal/cache"
)

// A child zone's servers may supply glue only for nameserver names inside the
// zone they were asked for. The bailiwick test in checkGlueRR is expressed in
// labels (resolveState.level), so it is only as good as that counter.
//
// Topology (all loopback, CD=1, DNSSEC off, qname_min_level at its shipped
// default of 3):
//
//	zones.hoster.test.              parent (3 labels), seeded in the delegation cache
//	  alice.eu.zones.hoster.test.   attacker, delegated by the parent (two labels deeper:
//	                                eu.zones.hoster.test. is an empty non-terminal)
//	  carol.eu.zones.hoster.test.   victim, delegated by the parent to
//	                                ns.bob.eu.zones.hoster.test. (a sibling's host, no glue)
//
// History: two client queries for names under alice's zone are in flight at the
// same time while alice's delegation is still unknown. The first one to get the
// parent's referral caches the delegation; the second one receives the very
// same referral a moment later, finds the delegation already cached and takes
// processDelegation's cached branch. Alice's server answers that second query
// with a referral for sub.alice... whose NS is ns.bob.eu.zones.hoster.test. and
// attaches "glue" for it pointing at herself.
//
// ns.bob.eu.zones.hoster.test. is not inside alice.eu.zones.hoster.test., so
// that address must not be learned. If it is, the next query for carol's zone
// is sent to alice.
func TestGlueBailiwick_CachedDescentKeepsZoneDepth(t *testing.T) {
	const (
		parentZone = "zones.hoster.test."
		aliceZone  = "alice.eu.zones.hoster.test."
		carolZone  = "carol.eu.zones.hoster.test."
		bobNS      = "ns.bob.eu.zones.hoster.test."
		aliceGlue  = "192.0.2.10"
		evilGlue   = "192.0.2.66"
	)

	var ignore int64

	softNeg := func(zone string) *dns.Msg {
		m := &dns.Msg{}
		m.Authoritative = true
		m.Ns = []dns.RR{mustRR(t, zone+" 30 IN SOA ns."+zone+" hostmaster."+zone+" 1 30 30 30 30")}
		return m
	}

	// Gates that order the two in-flight queries.
	secondAtParent := make(chan struct{}) // closed when the parent has received query #2
	releaseSecond := make(chan struct{})  // closed when the parent may answer query #2
	var secondOnce sync.Once

	var carolAskedAtAlice atomic.Int64

	// alice's server: authoritative for alice.eu.zones.hoster.test., and
	// malicious.
	aliceAddr, stopAlice := startMockAuth(t, &ignore, func(q dns.Question) *dns.Msg {
		name := dns.CanonicalName(q.Name)
		switch {
		case name == "first."+aliceZone && q.Qtype == dns.TypeA:
			m := &dns.Msg{}
			m.Authoritative = true
			m.Answer = []dns.RR{mustRR(t, "first."+aliceZone+" 300 IN A 198.51.100.1")}
			return m
		case dns.IsSubDomain("sub."+aliceZone, name) && q.Qtype == dns.TypeA && name != "sub."+aliceZone:
			// Referral to a zone of her own, naming a host in her sibling's
			// zone and volunteering an address for it.
			m := &dns.Msg{}
			m.Ns = []dns.RR{mustRR(t, "sub."+aliceZone+" 300 IN NS "+bobNS)}
			m.Extra = []dns.RR{mustRR(t, bobNS+" 300 IN A "+evilGlue)}
			return m
		case dns.IsSubDomain(carolZone, name) && q.Qtype == dns.TypeA:
			// Reached only if the resolver was tricked into treating this
			// server as carol's.
			carolAskedAtAlice.Add(1)
			m := &dns.Msg{}
			m.Authoritative = true
			m.Answer = []dns.RR{mustRR(t, name+" 300 IN A 6.6.6.6")}
			return m
		}
		return softNeg(aliceZone)
	})
	defer stopAlice()

	// The parent: honest. It delegates alice (with glue) and carol (to a
	// sibling's host, so without glue).
	parentAddr, stopParent := startMockAuth(t, &ignore, func(q dns.Question) *dns.Msg {
		name := dns.CanonicalName(q.Name)
		switch {
		case dns.IsSubDomain(aliceZone, name):
			if name == "www.sub."+aliceZone {
				secondOnce.Do(func() { close(secondAtParent) })
				select {
				case <-releaseSecond:
				case <-time.After(1500 * time.Millisecond):
				}
			}
			m := &dns.Msg{}
			m.Ns = []dns.RR{mustRR(t, aliceZone+" 300 IN NS ns."+aliceZone)}
			m.Extra = []dns.RR{mustRR(t, "ns."+aliceZone+" 300 IN A "+aliceGlue)}
			return m
		case dns.IsSubDomain(carolZone, name):
			m := &dns.Msg{}
			m.Ns = []dns.RR{mustRR(t, carolZone+" 300 IN NS "+bobNS)}
			return m
		}
		return softNeg(parentZone)
	})
	defer stopParent()

	remap := map[string]string{
		aliceGlue + ":53": aliceAddr,
		evilGlue + ":53":  aliceAddr, // the address alice advertises for bob's host is her own
	}
	mapper := func(addr string) string {
		if to, ok := remap[addr]; ok {
			return to
		}
		return addr
	}

	base := makeTestConfig()
	cfg := *base
	cfg.DNSSEC = "off"
	cfg.IPv6Access = false
	cfg.QnameMinLevel = 3 // the value config.go ships
	r := newWiredTestResolver(&cfg)
	r.resolveTarget.Store(&mapper)

	parentServers := &authority.Servers{
		Zone:            parentZone,
		List:            []*authority.Server{authority.NewServer(parentAddr, authority.IPv4)},
		CheckingDisable: true,
	}
	r.delegations.Set(cache.Key(dns.Question{Name: parentZone, Qtype: dns.TypeNS, Qclass: dns.ClassINET}, true), nil, parentServers, time.Hour)

	ask := func(name string) (*dns.Msg, error) {
		req := new(dns.Msg)
		req.SetQuestion(name, dns.TypeA)
		req.CheckingDisabled = true
		ctx, cancel := context.WithTimeout(context.Background(), 5*time.Second)
		defer cancel()
		ctx = context.WithValue(ctx, contextKeyRequestID, req.Id)
		// Exactly what DNSHandler.handle passes: start at the root, level 0,
		// minimization allowed.
		return r.Resolve(ctx, req, parentServers, true, 30, 0, false, nil)
	}

	// Query #2 starts first and is held at the parent.
	type result struct {
		resp *dns.Msg
		err  error
	}
	secondDone := make(chan result, 1)
	go func() {
		resp, err := ask("www.sub." + aliceZone)
		secondDone <- result{resp, err}
	}()
	select {
	case <-secondAtParent:
	case <-time.After(3 * time.Second):
		t.Fatal("query #2 never reached the parent")
	}

	// Query #1 runs to completion meanwhile and caches alice's delegation.
	resp, err := ask("first." + aliceZone)
	if err != nil || resp == nil || len(resp.Answer) == 0 {
		t.Fatalf("query #1 failed: resp=%v err=%v", resp, err)
	}
	if _, err := r.delegations.Get(cache.Key(dns.Question{Name: aliceZone, Qtype: dns.TypeNS, Qclass: dns.ClassINET}, true)); err != nil {
		t.Fatalf("query #1 did not cache alice's delegation: %v", err)
	}

	// Now the parent answers query #2 with the same referral.
	close(releaseSecond)
	select {
	case res := <-secondDone:
		if res.err != nil {
			t.Logf("query #2: %v", res.err)
		}
	case <-time.After(6 * time.Second):
		t.Fatal("query #2 did not finish")
	}

	// 1. The address alice volunteered for her sibling's host must not have
	//    been learned.
	if addrs, ok := r.getIPv4Cache(bobNS); ok {
		t.Errorf("glue cache holds %v for %s, learned from the servers of %s",
			addrs, bobNS, aliceZone)
	}

	// 2. And a later query for carol's zone must not be answered by alice.
	resp, err = ask("www." + carolZone)
	if n := carolAskedAtAlice.Load(); n != 0 {
		t.Errorf("alice's server was asked %d time(s) about names in %s", n, carolZone)
	}
	if err == nil && resp != nil {
		for _, rr := range resp.Answer {
			if a, ok := rr.(*dns.A); ok {
				if addr, _ := netip.AddrFromSlice(a.A.To4()); addr == netip.MustParseAddr("6.6.6.6") {
					t.Errorf("client received alice's forged answer for carol's name: %s", rr)
				}
			}
		}
	}
}
