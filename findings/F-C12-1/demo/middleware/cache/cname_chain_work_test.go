package cache_test

import (
	"context"
	"fmt"
	"strconv"
	"strings"
	"sync/atomic"
	"testing"
	"time"

	"github.com/miekg/dns"
	"github.com/semihalev/sdns/config"
	"github.com/semihalev/sdns/internal/mock"
	"github.com/semihalev/sdns/middleware"
	"github.com/semihalev/sdns/middleware/cache"
	"github.com/semihalev/sdns/middleware/edns"
)

// endlessAliasAuthority stands where the resolver stands in the pipeline and
// answers like one that has just walked to an attacker's zone: every name
// n<i>.chain. is an alias for n<i+1>.chain., one CNAME per reply, for ever.
// (A wildcard-synthesising authority serves exactly this with a five-line
// zone.) resolutions counts how many full resolutions the one client query
// caused; each would be at least one upstream packet.
type endlessAliasAuthority struct{ resolutions *atomic.Int64 }

func (endlessAliasAuthority) Name() string { return "endless-alias-authority" }

func (a endlessAliasAuthority) ServeDNS(ctx context.Context, ch *middleware.Chain) {
	_, req := ch.Materialize(ctx)
	if req == nil {
		return
	}
	a.resolutions.Add(1)
	q := req.Question[0]
	resp := new(dns.Msg)
	resp.SetReply(req)
	resp.RecursionAvailable = true
	label, rest, _ := strings.Cut(q.Name, ".")
	if i, err := strconv.Atoi(strings.TrimPrefix(label, "n")); err == nil && rest == "chain." {
		resp.Answer = []dns.RR{&dns.CNAME{
			Hdr:    dns.RR_Header{Name: q.Name, Rrtype: dns.TypeCNAME, Class: dns.ClassINET, Ttl: 300},
			Target: fmt.Sprintf("n%d.chain.", i+1),
		}}
	}
	_ = ch.Writer.WriteMsg(resp)
	ch.Cancel()
}

// The alias chase has two caps: ten hops per invocation (cnameDepth) and ten
// nested invocations per client query (maxCnameChaseDepth). Whatever one reads
// into them, they are meant to make the work one query can cause a small
// constant. With the recursion firewall off — and equally in shadow mode,
// the default, which must behave like off — nothing else counts sub-queries.
func TestEndlessAliasChainCostsBoundedResolutions(t *testing.T) {
	middleware.Reset()
	t.Cleanup(middleware.Reset)

	var resolutions atomic.Int64
	middleware.Register("edns", func(cfg *config.Config) middleware.Handler { return edns.New(cfg) })
	middleware.Register("cache", func(cfg *config.Config) middleware.Handler { return cache.New(cfg) })
	middleware.Register("endless-alias-authority", func(*config.Config) middleware.Handler {
		return endlessAliasAuthority{resolutions: &resolutions}
	})
	cfg := &config.Config{CacheSize: 1 << 16, Expire: 600}
	cfg.RecursionFirewall.Mode = config.RecursionFirewallModeOff
	middleware.Setup(cfg)
	pipeline := middleware.GlobalPipeline()

	// The server gives every query `querytimeout` (default 10s). One second
	// is plenty to tell a constant from a number that only the clock stops.
	ctx, cancel := context.WithTimeout(context.Background(), time.Second)
	defer cancel()

	req := new(dns.Msg)
	req.SetQuestion("n0.chain.", dns.TypeA)
	req.SetEdns0(1232, false)
	w := mock.NewWriter("udp", "127.0.0.1:4242")
	ch := pipeline.NewChain()
	ch.Reset(w, req)
	started := time.Now()
	ch.Next(ctx)
	pipeline.PutChain(ch)
	elapsed := time.Since(started)

	got := resolutions.Load()
	t.Logf("one client query -> %d resolutions in %v (written=%v)", got, elapsed.Round(time.Millisecond), w.Written())

	// 10 hops x 10 nesting levels is the most generous reading of the two
	// caps; a BIND or Unbound stops after 16 and 11 aliases respectively.
	const generous = 10*10 + 10
	if got > generous {
		t.Fatalf("a single client query for an endless alias chain caused %d full resolutions "+
			"(cap by the most generous reading of cnameDepth x maxCnameChaseDepth: %d) and was "+
			"still chasing after %v — the only thing that stopped it was the request deadline",
			got, generous, elapsed.Round(time.Millisecond))
	}
}
