package resolver

import (
	"context"
	"net"
	"sync"
	"testing"
	"time"

	"github.com/miekg/dns"
	"github.com/semihalev/sdns/internal/mock"
	"github.com/semihalev/sdns/middleware"
	cachemw "github.com/semihalev/sdns/middleware/cache"
	"github.com/semihalev/sdns/middleware/edns"
)

// startECSAuthSF is a loopback authoritative server whose handler sees the
// whole query, so it can tailor the answer on the EDNS Client Subnet option
// and declare a SCOPE in its reply the way a geo-aware authority does.
func startECSAuthSF(t *testing.T, handle func(r *dns.Msg) *dns.Msg) string {
	t.Helper()
	pc, err := net.ListenPacket("udp", "127.0.0.1:0")
	if err != nil {
		t.Fatalf("listen udp: %v", err)
	}
	mux := dns.NewServeMux()
	mux.HandleFunc(".", func(w dns.ResponseWriter, r *dns.Msg) {
		if len(r.Question) != 1 {
			return
		}
		_ = w.WriteMsg(handle(r))
	})
	s := &dns.Server{Net: "udp", PacketConn: pc, Handler: mux}
	go func() { _ = s.ActivateAndServe() }()
	time.Sleep(10 * time.Millisecond)
	t.Cleanup(func() { _ = s.Shutdown() })
	return pc.LocalAddr().String()
}

func querySubnetSF(r *dns.Msg) *dns.EDNS0_SUBNET {
	opt := r.IsEdns0()
	if opt == nil {
		return nil
	}
	for _, o := range opt.Option {
		if sub, ok := o.(*dns.EDNS0_SUBNET); ok {
			return sub
		}
	}
	return nil
}

// TestConcurrentLookupsFromDifferentSubnetsAreNotCollapsed: two clients in
// different /24s ask the same name at the same moment. The cache keeps them
// apart (its dedup key carries the scope), so both reach the resolver — whose
// singleflight key is (question, zone, CD, server set) and nothing else. The
// second lookup must not be handed the first one's subnet-tailored reply.
func TestConcurrentLookupsFromDifferentSubnetsAreNotCollapsed(t *testing.T) {
	var (
		mu      sync.Mutex
		geoSeen []string
	)
	firstArrived := make(chan struct{})
	release := make(chan struct{})
	var once sync.Once

	geoAddr := startECSAuthSF(t, func(r *dns.Msg) *dns.Msg {
		q := r.Question[0]
		reply := new(dns.Msg)
		reply.SetReply(r)
		reply.Authoritative = true
		if dns.CanonicalName(q.Name) != "www.geo." || q.Qtype != dns.TypeA {
			reply.Ns = []dns.RR{mustRR(t, "geo. 30 IN SOA ns.geo. hostmaster.geo. 1 30 30 30 30")}
			return reply
		}
		sub := querySubnetSF(r)
		answer := "192.0.2.100"
		if sub != nil {
			mu.Lock()
			geoSeen = append(geoSeen, sub.Address.String())
			mu.Unlock()
			switch {
			case (&net.IPNet{IP: net.IPv4(198, 51, 100, 0), Mask: net.CIDRMask(24, 32)}).Contains(sub.Address):
				answer = "192.0.2.101"
				// Hold client A's reply until client B has had ample time
				// to reach the resolver's singleflight.
				once.Do(func() { close(firstArrived) })
				select {
				case <-release:
				case <-time.After(1500 * time.Millisecond):
				}
			case (&net.IPNet{IP: net.IPv4(203, 0, 113, 0), Mask: net.CIDRMask(24, 32)}).Contains(sub.Address):
				answer = "192.0.2.102"
			}
			o := new(dns.OPT)
			o.Hdr.Name = "."
			o.Hdr.Rrtype = dns.TypeOPT
			o.SetUDPSize(1232)
			o.Option = append(o.Option, &dns.EDNS0_SUBNET{
				Code: dns.EDNS0SUBNET, Family: sub.Family,
				SourceNetmask: sub.SourceNetmask, SourceScope: 24, Address: sub.Address,
			})
			reply.Extra = append(reply.Extra, o)
		}
		reply.Answer = []dns.RR{mustRR(t, "www.geo. 300 IN A "+answer)}
		return reply
	})

	rootAddr := startECSAuthSF(t, func(r *dns.Msg) *dns.Msg {
		q := r.Question[0]
		name := dns.CanonicalName(q.Name)
		reply := new(dns.Msg)
		reply.SetReply(r)
		switch {
		case name == "." && q.Qtype == dns.TypeNS:
			reply.Authoritative = true
			reply.Answer = []dns.RR{mustRR(t, ". 3600 IN NS a.root.")}
		case q.Qtype == dns.TypeDS:
			reply.Authoritative = true
			reply.Ns = []dns.RR{mustRR(t, ". 30 IN SOA a.root. hostmaster.root. 1 30 30 30 30")}
		case dns.IsSubDomain("geo.", name):
			reply.Ns = []dns.RR{mustRR(t, "geo. 3600 IN NS ns.geo.")}
			reply.Extra = []dns.RR{mustRR(t, "ns.geo. 3600 IN A 192.0.2.31")}
		default:
			reply.Authoritative = true
			reply.Ns = []dns.RR{mustRR(t, ". 30 IN SOA a.root. hostmaster.root. 1 30 30 30 30")}
		}
		return reply
	})

	remap := map[string]string{"192.0.2.31:53": geoAddr}
	mapper := func(addr string) string {
		if to, ok := remap[addr]; ok {
			return to
		}
		return addr
	}

	base := makeTestConfig()
	cfg := *base
	cfg.RootServers = []string{rootAddr}
	cfg.Root6Servers = nil
	cfg.DNSSEC = "off"
	cfg.CacheSize = 1024
	cfg.RateLimit = 0
	cfg.ECS.Enabled = true

	h := New(&cfg)
	h.resolver.resolveTarget.Store(&mapper)
	em := edns.New(&cfg)
	cm := cachemw.New(&cfg)
	defer cm.Stop()
	sub := &chainQueryer{handlers: []middleware.Handler{h}}
	cm.SetPrefetchQueryer(sub)
	cm.SetQueryer(sub)

	ask := func(clientSubnet string) string {
		req := new(dns.Msg)
		req.SetQuestion("www.geo.", dns.TypeA)
		req.SetEdns0(1232, false)
		req.IsEdns0().Option = append(req.IsEdns0().Option, &dns.EDNS0_SUBNET{
			Code: dns.EDNS0SUBNET, Family: 1, SourceNetmask: 32,
			Address: net.ParseIP(clientSubnet).To4(),
		})
		w := mock.NewWriter("udp", "127.0.0.1:0")
		ch := middleware.NewChain([]middleware.Handler{em, cm, h})
		ch.Reset(w, req)
		ch.Next(context.Background())
		if !w.Written() || len(w.Msg().Answer) != 1 {
			return "no answer"
		}
		return w.Msg().Answer[0].(*dns.A).A.String()
	}

	var gotA, gotB string
	var wg sync.WaitGroup
	wg.Add(2)
	go func() { defer wg.Done(); gotA = ask("198.51.100.7") }()
	select {
	case <-firstArrived:
	case <-time.After(2 * time.Second):
		t.Fatal("client A's query never reached the authority")
	}
	go func() { defer wg.Done(); gotB = ask("203.0.113.9") }()
	// B needs no referral (the delegation is cached by now) and goes straight
	// to the geo. lookup; give it time to get there, then let A's reply go.
	time.Sleep(400 * time.Millisecond)
	close(release)
	wg.Wait()

	mu.Lock()
	seen := append([]string(nil), geoSeen...)
	mu.Unlock()
	t.Logf("A got %s, B got %s, authority saw ECS %v", gotA, gotB, seen)

	if gotA != "192.0.2.101" {
		t.Fatalf("client A: got %s, want 192.0.2.101", gotA)
	}
	if gotB != "192.0.2.102" {
		t.Fatalf("client B (203.0.113.9) was handed %s — client A's reply, scoped by the authority to "+
			"198.51.100.0/24 — because the resolver collapsed the two lookups; authority saw ECS %v", gotB, seen)
	}
}
