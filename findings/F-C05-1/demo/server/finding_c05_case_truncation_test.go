package server

import (
	"context"
	"net"
	"strings"
	"testing"
	"time"

	"github.com/miekg/dns"
)

// TestFindingC05SpellingDecidesTruncation: which internal path serves a
// cache hit must be unobservable. Here the same warm entry, asked for by
// the same packet, is answered in full by the byte path and as an empty
// TC=1 reply by the decoded path — because the byte path echoes the
// client's spelling of the question name in the answer owners (so they
// compress against the question) and the decoded path keeps the spelling
// the entry happened to be stored under (so they do not).
func TestFindingC05SpellingDecidesTruncation(t *testing.T) {
	// The stand-in resolver answers with three TXT records owned by the
	// name exactly as it was asked. Sized so the compressed reply is a few
	// bytes under the 512-byte ceiling of a client without EDNS.
	s := newHitChainServerWith(t, func(req *dns.Msg) *dns.Msg {
		resp := new(dns.Msg)
		resp.SetReply(req)
		resp.RecursionAvailable = true
		for i, n := range []int{147, 147, 146} {
			resp.Answer = append(resp.Answer, &dns.TXT{
				Hdr: dns.RR_Header{Name: req.Question[0].Name, Rrtype: dns.TypeTXT, Class: dns.ClassINET, Ttl: 300},
				Txt: []string{strings.Repeat(string(rune('a'+i)), n)},
			})
		}
		return resp
	})

	pack := func(name string) (*dns.Msg, []byte) {
		m := new(dns.Msg)
		m.SetQuestion(name, dns.TypeTXT) // RD=1, no OPT: the 512-byte client
		raw, err := m.Pack()
		if err != nil {
			t.Fatalf("pack: %v", err)
		}
		return m, raw
	}

	// History: some client warms the entry with one spelling ...
	job := &strictTestJob{remote: net.UDPAddr{IP: net.IPv4(203, 0, 113, 40), Port: 4242}}
	_, warm := pack("big.ZERO.test.")
	if !s.ServeRaw(job, warm, time.Now()) {
		t.Fatal("warm-up not handled")
	}

	// ... and another client asks with its own (0x20-style) spelling.
	q, raw := pack("big.zero.test.")

	job.wrote = job.wrote[:0]
	if !s.ServeRaw(job, raw, time.Now()) {
		t.Fatal("hit not handled")
	}
	wireResp := new(dns.Msg)
	if err := wireResp.Unpack(job.wrote); err != nil {
		t.Fatalf("byte-path reply: %v", err)
	}
	if len(job.wrote) > 512 {
		t.Fatalf("byte-path reply is %d bytes for a 512-byte client", len(job.wrote))
	}

	// The same packet, the same warm entry, through the decoded entry
	// point (a UDP transport without the strict job slots).
	plain := &plainUDPTransport{remote: net.UDPAddr{IP: net.IPv4(203, 0, 113, 40), Port: 4242}}
	s.ServeMsg(context.Background(), plain, q.Copy())
	msgResp := new(dns.Msg)
	if err := msgResp.Unpack(plain.wrote); err != nil {
		t.Fatalf("decoded-path reply: %v", err)
	}

	if wireResp.Truncated != msgResp.Truncated || len(wireResp.Answer) != len(msgResp.Answer) {
		t.Fatalf("same packet, same cache state, different replies:\n"+
			" byte path   : TC=%v, %d answers, %d bytes\n"+
			" decoded path: TC=%v, %d answers, %d bytes",
			wireResp.Truncated, len(wireResp.Answer), len(job.wrote),
			msgResp.Truncated, len(msgResp.Answer), len(plain.wrote))
	}
}

// plainUDPTransport is a datagram transport that packs whatever message it
// is handed — what a client of the decoded entry point sees on the wire.
type plainUDPTransport struct {
	remote net.UDPAddr
	wrote  []byte
}

func (p *plainUDPTransport) LocalAddr() net.Addr  { return &net.UDPAddr{IP: net.IPv4(127, 0, 0, 1), Port: 53} }
func (p *plainUDPTransport) RemoteAddr() net.Addr { return &p.remote }
func (p *plainUDPTransport) Close() error         { return nil }
func (p *plainUDPTransport) Write(b []byte) (int, error) {
	p.wrote = append(p.wrote[:0], b...)
	return len(b), nil
}
func (p *plainUDPTransport) WriteMsg(m *dns.Msg) error {
	packed, err := m.Pack()
	if err != nil {
		return err
	}
	_, err = p.Write(packed)
	return err
}
