package resolver

import (
	"context"
	"testing"

	"github.com/miekg/dns"
	"github.com/semihalev/sdns/internal/dnsutil"
)

// The replies below are all obtained DIRECTLY from the root servers (no
// referral has been followed, so the resolver's parent DS set is still empty)
// for names that live in "example.", a TLD the signed root holds a DS for.
// Every one of them names "example." as its RRSIG signer. Such a reply is
// under a signed chain: it may only be relayed after the DS for "example." has
// been fetched from the root, validated, and used to check the signatures —
// and a reply whose signatures do not check out is SERVFAIL.

// forgedExampleKey is a key for "example." that the root's DS does NOT
// describe: whatever it signs names the right signer and is cryptographically
// worthless.
func forgedExampleKey(t *testing.T) hermeticKey {
	t.Helper()
	return newHermeticKey(t, "example.")
}

func txtStrings(rrs []dns.RR) []string {
	var out []string
	for _, rr := range rrs {
		if txt, ok := rr.(*dns.TXT); ok {
			out = append(out, txt.Txt...)
		}
	}
	return out
}

// TestRootAnswerWithChildSigner_ForgedPositive: the root server (or whoever
// speaks with its address) answers "example. TXT" itself, with an RRSIG whose
// SignerName is "example." made by a key the DS does not cover.
func TestRootAnswerWithChildSigner_ForgedPositive(t *testing.T) {
	for _, minLevel := range []int{0, 3} {
		net := newHermeticNet(t)
		zone := net.Delegate("example.")
		zone.Serve(mustRR(t, `example. 300 IN TXT "genuine"`))

		forged := forgedExampleKey(t)
		bad := mustRR(t, `example. 300 IN TXT "forged"`)
		net.root.serve("example.", dns.TypeTXT, bad, forged.sign(t, []dns.RR{bad}))

		cfg := net.Config()
		cfg.QnameMinLevel = minLevel
		resp := hermeticAsk(t, net.handlerWithConfig(cfg), "example.", dns.TypeTXT)

		if resp.Rcode != dns.RcodeServerFailure {
			t.Errorf("qname_min_level=%d: rcode = %s, answer TXT = %q, AD=%v; want SERVFAIL: "+
				"the answer names example. as signer, the root holds a DS for example., "+
				"and the signature does not verify under it",
				minLevel, dns.RcodeToString[resp.Rcode], txtStrings(resp.Answer), resp.AuthenticatedData)
		}
		if len(resp.Answer) != 0 {
			t.Errorf("qname_min_level=%d: unvalidated data relayed to a CD=0 client: %q",
				minLevel, txtStrings(resp.Answer))
		}
	}
}

// TestRootAnswerWithChildSigner_ForgedDeepName is the same for a name deeper
// than the TLD apex.
func TestRootAnswerWithChildSigner_ForgedDeepName(t *testing.T) {
	net := newHermeticNet(t)
	zone := net.Delegate("example.")
	zone.Serve(mustRR(t, "www.example. 300 IN A 192.0.2.10"))

	forged := forgedExampleKey(t)
	bad := mustRR(t, "www.example. 300 IN A 203.0.113.66")
	net.root.serve("www.example.", dns.TypeA, bad, forged.sign(t, []dns.RR{bad}))

	resp := hermeticAsk(t, net.Handler(), "www.example.", dns.TypeA)

	if resp.Rcode != dns.RcodeServerFailure || len(resp.Answer) != 0 {
		t.Fatalf("rcode = %s with %d answers (%v), AD=%v; want SERVFAIL and nothing served",
			dns.RcodeToString[resp.Rcode], len(resp.Answer), resp.Answer, resp.AuthenticatedData)
	}
}

// TestRootAnswerWithChildSigner_GenuineIsValidated is the honest version of
// the same shape (what the real root servers do for arpa.): the root servers
// are also authoritative for a signed TLD and answer for it directly, with
// correct signatures. The DS for the signer has to be fetched and the answer
// validated — AD=0 here means validation was skipped, not that it failed.
func TestRootAnswerWithChildSigner_GenuineIsValidated(t *testing.T) {
	net := newHermeticNet(t)
	zone := net.Delegate("example.")

	good := mustRR(t, `example. 300 IN TXT "genuine"`)
	net.root.serve("example.", dns.TypeTXT, good, zone.key.sign(t, []dns.RR{good}))

	resp := hermeticAsk(t, net.Handler(), "example.", dns.TypeTXT)

	if resp.Rcode != dns.RcodeSuccess || len(resp.Answer) == 0 {
		t.Fatalf("rcode = %s with %d answers; want the correctly signed answer",
			dns.RcodeToString[resp.Rcode], len(resp.Answer))
	}
	if !resp.AuthenticatedData {
		t.Fatal("a correctly signed answer under a DS the root publishes came back " +
			"AD=0: the DS for the signer was never fetched and nothing was validated")
	}
	if net.root.asked("example.", dns.TypeDS) == 0 {
		t.Fatal("the DS for the signer was never asked for")
	}
}

// TestRootAnswerWithChildSigner_ForgedNODATA: the root answers NODATA for a
// type that exists, "proved" by an SOA and NSEC signed with the forged key.
func TestRootAnswerWithChildSigner_ForgedNODATA(t *testing.T) {
	net := newHermeticNet(t)
	zone := net.Delegate("example.")
	zone.Serve(mustRR(t, "example. 300 IN MX 10 mail.example."))

	forged := forgedExampleKey(t)
	soa := mustRR(t, "example. 300 IN SOA ns.example. hostmaster.example. 1 3600 600 86400 300")
	nsec := &dns.NSEC{
		Hdr:        dns.RR_Header{Name: "example.", Rrtype: dns.TypeNSEC, Class: dns.ClassINET, Ttl: 300},
		NextDomain: "zz-last.example.",
		TypeBitMap: []uint16{dns.TypeNS, dns.TypeSOA, dns.TypeRRSIG, dns.TypeNSEC, dns.TypeDNSKEY},
	}
	net.root.setSOAProof(nil)
	net.root.proveAbsent("example.", dns.TypeMX,
		soa, forged.sign(t, []dns.RR{soa}),
		nsec, forged.sign(t, []dns.RR{nsec}))

	resp := hermeticAsk(t, net.Handler(), "example.", dns.TypeMX)

	if resp.Rcode != dns.RcodeServerFailure {
		t.Fatalf("rcode = %s, AD=%v, authority=%v; want SERVFAIL: the denial is signed "+
			"by example. with a key its DS does not cover",
			dns.RcodeToString[resp.Rcode], resp.AuthenticatedData, resp.Ns)
	}
}

// TestRootAnswerWithChildSigner_ForgedNXDOMAIN drives the negative-response
// validator with exactly what resolve() hands it for a reply from the root
// servers: no parent DS yet, zone ".".
func TestRootAnswerWithChildSigner_ForgedNXDOMAIN(t *testing.T) {
	net := newHermeticNet(t)
	zone := net.Delegate("example.")
	zone.Serve(mustRR(t, "www.example. 300 IN A 192.0.2.10"))
	r := net.Resolver()

	forged := forgedExampleKey(t)
	soa := mustRR(t, "example. 300 IN SOA ns.example. hostmaster.example. 1 3600 600 86400 300")
	nsec := &dns.NSEC{
		Hdr:        dns.RR_Header{Name: "example.", Rrtype: dns.TypeNSEC, Class: dns.ClassINET, Ttl: 300},
		NextDomain: "zz-last.example.",
		TypeBitMap: []uint16{dns.TypeNS, dns.TypeSOA, dns.TypeRRSIG, dns.TypeNSEC, dns.TypeDNSKEY},
	}

	req := new(dns.Msg)
	req.SetQuestion("www.example.", dns.TypeA)
	req.SetEdns0(dnsutil.DefaultMsgSize, true)
	req.RecursionDesired = false

	resp := new(dns.Msg)
	resp.SetRcode(req, dns.RcodeNameError)
	resp.Ns = []dns.RR{
		soa, forged.sign(t, []dns.RR{soa}),
		nsec, forged.sign(t, []dns.RR{nsec}),
	}

	got, err := r.authority(context.Background(), req, resp, nil, rootzone)
	if err == nil {
		t.Fatalf("a forged NXDOMAIN signed by example. and served by the root was accepted "+
			"(rcode %s, AD=%v) although www.example. exists and the root holds a DS for example.",
			dns.RcodeToString[got.Rcode], got.AuthenticatedData)
	}
}

// TestRootAnswerUnsignedUnderSignedTLD: the same reply with the signatures
// simply left out. The root is signed and holds a DS for example., so there
// is no proof whatever that this data may be unsigned.
func TestRootAnswerUnsignedUnderSignedTLD(t *testing.T) {
	net := newHermeticNet(t)
	zone := net.Delegate("example.")
	zone.Serve(mustRR(t, `example. 300 IN TXT "genuine"`))

	net.root.serve("example.", dns.TypeTXT, mustRR(t, `example. 300 IN TXT "stripped"`))

	resp := hermeticAsk(t, net.Handler(), "example.", dns.TypeTXT)

	if resp.Rcode != dns.RcodeServerFailure || len(resp.Answer) != 0 {
		t.Fatalf("rcode = %s, answer TXT = %q; want SERVFAIL: unsigned data under a signed "+
			"root and a TLD with a DS", dns.RcodeToString[resp.Rcode], txtStrings(resp.Answer))
	}
}
