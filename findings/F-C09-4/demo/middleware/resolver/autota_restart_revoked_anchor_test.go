package resolver

import (
	"context"
	"crypto/ed25519"
	"encoding/base64"
	"encoding/hex"
	"net"
	"path/filepath"
	"sync"
	"testing"
	"time"

	"github.com/miekg/dns"
	"github.com/semihalev/sdns/config"
	"github.com/semihalev/sdns/middleware/resolver/dnssec"
)

// rsRoot is a loopback "root server" whose DNSKEY answer the test
// swaps between AutoTA runs.
type rsRoot struct {
	mu     sync.Mutex
	answer []dns.RR
	addr   string
	srv    *dns.Server
}

func (s *rsRoot) ServeDNS(w dns.ResponseWriter, r *dns.Msg) {
	resp := new(dns.Msg)
	resp.SetRcode(r, dns.RcodeSuccess)
	resp.Authoritative = true
	if r.Question[0].Name == "." && r.Question[0].Qtype == dns.TypeDNSKEY {
		s.mu.Lock()
		resp.Answer = append(resp.Answer, s.answer...)
		s.mu.Unlock()
	}
	_ = w.WriteMsg(resp)
}

func (s *rsRoot) set(rrs []dns.RR) {
	s.mu.Lock()
	s.answer = rrs
	s.mu.Unlock()
}

func startRsRoot(t *testing.T) *rsRoot {
	t.Helper()
	pc, err := net.ListenPacket("udp", "127.0.0.1:0")
	if err != nil {
		t.Fatalf("listen: %v", err)
	}
	s := &rsRoot{addr: pc.LocalAddr().String()}
	started := make(chan struct{})
	s.srv = &dns.Server{PacketConn: pc, Handler: s, NotifyStartedFunc: func() { close(started) }}
	go func() { _ = s.srv.ActivateAndServe() }()
	<-started
	t.Cleanup(func() { _ = s.srv.Shutdown() })
	return s
}

type rsKey struct {
	key  *dns.DNSKEY
	priv ed25519.PrivateKey
}

func rsKeyFromSeed(t *testing.T, seedHex string) rsKey {
	t.Helper()
	seed, err := hex.DecodeString(seedHex)
	if err != nil || len(seed) != ed25519.SeedSize {
		t.Fatalf("bad seed %q", seedHex)
	}
	priv := ed25519.NewKeyFromSeed(seed)
	return rsKey{
		priv: priv,
		key: &dns.DNSKEY{
			Hdr:       dns.RR_Header{Name: ".", Rrtype: dns.TypeDNSKEY, Class: dns.ClassINET, Ttl: 3600},
			Flags:     257,
			Protocol:  3,
			Algorithm: dns.ED25519,
			PublicKey: base64.StdEncoding.EncodeToString(priv.Public().(ed25519.PublicKey)),
		},
	}
}

func (k rsKey) revoked() *dns.DNSKEY {
	r := *k.key
	r.Flags |= DNSKEYFlagRevoke
	return &r
}

// rsSign signs set with priv, naming signer (the key form whose tag
// goes into the RRSIG).
func rsSign(t *testing.T, set []dns.RR, signer *dns.DNSKEY, priv ed25519.PrivateKey) *dns.RRSIG {
	t.Helper()
	now := time.Now()
	sig := &dns.RRSIG{
		Hdr:         dns.RR_Header{Name: ".", Rrtype: dns.TypeRRSIG, Class: dns.ClassINET, Ttl: 3600},
		TypeCovered: dns.TypeDNSKEY,
		Algorithm:   signer.Algorithm,
		SignerName:  ".",
		KeyTag:      dnssec.KeyTag(signer),
		Inception:   uint32(now.Add(-time.Hour).Unix()), //nolint:gosec
		Expiration:  uint32(now.Add(time.Hour).Unix()),  //nolint:gosec
		OrigTtl:     3600,
	}
	if err := sig.Sign(priv, set); err != nil {
		t.Fatalf("sign: %v", err)
	}
	return sig
}

func newRsConfig(t *testing.T, root *rsRoot, anchors ...*dns.DNSKEY) *config.Config {
	t.Helper()
	cfg := new(config.Config)
	cfg.RootServers = []string{root.addr}
	for _, k := range anchors {
		cfg.RootKeys = append(cfg.RootKeys, k.String())
	}
	cfg.Maxdepth = 30
	cfg.Expire = 600
	cfg.CacheSize = 1024
	cfg.Timeout.Duration = 2 * time.Second
	cfg.Directory = t.TempDir()
	return cfg
}

func rsLiveTags(r *Resolver) map[uint16]bool {
	r.RLock()
	defer r.RUnlock()
	out := make(map[uint16]bool)
	for _, rr := range r.rootKeys {
		out[dnssec.KeyTag(rr.(*dns.DNSKEY))] = true
	}
	return out
}

// "A key whose self-signed revocation was accepted is never published as a
// trust anchor again - not after restarts [or] configuration that still lists
// it." The tombstone is on disk, but a freshly constructed Resolver publishes
// cfg.RootKeys verbatim and keeps that set live until the background goroutine
// has waited for the pipeline, finished the (network-bound, and - with DNSSEC
// on - validated against this very set) root priming query and entered AutoTA.
// Client queries served in that window, and the priming answer itself, are
// validated with the revoked key.
func TestRevokedConfiguredAnchorNotLiveAfterRestart(t *testing.T) {
	k := rsKeyFromSeed(t, "1111111111111111111111111111111111111111111111111111111111111111")
	rk := rsKeyFromSeed(t, "3333333333333333333333333333333333333333333333333333333333333333")

	root := startRsRoot(t)
	cfg := newRsConfig(t, root, k.key, rk.key)

	// First process lifetime: R is revoked by the zone, the revocation is
	// accepted and made durable.
	r1 := NewResolver(cfg)
	set := []dns.RR{k.key, rk.key}
	root.set(append(append([]dns.RR{}, set...), rsSign(t, set, k.key, k.priv), rsSign(t, set, rk.key, rk.priv)))
	r1.AutoTA()
	rset := []dns.RR{k.key, rk.revoked()}
	root.set(append(append([]dns.RR{}, rset...), rsSign(t, rset, k.key, k.priv), rsSign(t, rset, rk.revoked(), rk.priv)))
	r1.AutoTA()
	if live := rsLiveTags(r1); live[dnssec.KeyTag(rk.key)] || !live[dnssec.KeyTag(k.key)] {
		t.Fatalf("setup: after the revocation only K should be live, got %v", live)
	}
	tomb, err := readTombstones(filepath.Join(cfg.Directory, tombstoneFile))
	if err != nil || tomb[dnskeyMaterialFP(rk.key)] == nil {
		t.Fatalf("setup: revocation of R should be durable (err=%v)", err)
	}

	// Restart with the same configuration (it still lists R) and the same
	// state directory. No AutoTA run has happened yet in this lifetime.
	r2 := NewResolver(cfg)

	if live := rsLiveTags(r2); live[dnssec.KeyTag(rk.key)] {
		t.Errorf("after restart the revoked, tombstoned anchor %d is in the live trust set %v", dnssec.KeyTag(rk.key), live)
	}

	// What that means for validation: a root DNSKEY RRset forged with the
	// revoked key alone is accepted as authenticated by the trust anchors.
	evil := rsKeyFromSeed(t, "4444444444444444444444444444444444444444444444444444444444444444")
	forged := []dns.RR{rk.key, evil.key}
	msg := new(dns.Msg)
	msg.SetQuestion(".", dns.TypeDNSKEY)
	msg.Response = true
	msg.Answer = append(append([]dns.RR{}, forged...), rsSign(t, forged, rk.key, rk.priv))
	if ok, _ := r2.verifyRootKeys(context.Background(), msg); ok {
		t.Errorf("after restart a root DNSKEY RRset signed only by the revoked anchor validates against the trust anchors")
	}

	// The surviving anchor must of course still work.
	good := []dns.RR{k.key}
	gmsg := new(dns.Msg)
	gmsg.SetQuestion(".", dns.TypeDNSKEY)
	gmsg.Response = true
	gmsg.Answer = append(append([]dns.RR{}, good...), rsSign(t, good, k.key, k.priv))
	if ok, err := r2.verifyRootKeys(context.Background(), gmsg); !ok {
		t.Errorf("after restart the non-revoked anchor no longer validates: %v", err)
	}
}
