package resolver

import (
	"context"
	"net"
	"sync/atomic"
	"testing"

	"github.com/miekg/dns"
	"github.com/semihalev/sdns/internal/mock"
	"github.com/semihalev/sdns/middleware"
	cachemw "github.com/semihalev/sdns/middleware/cache"
)

// bailiwickFixture is a three-server, unsigned (DNSSEC off) namespace:
//
//	root         delegates example.com. and victim.net.
//	example.com. (hostile) answers www.example.com. A with
//	                 www.example.com.  CNAME host.victim.net.
//	                 host.victim.net.  A     6.6.6.6          <- forged, out of zone
//	             and decorates the reply with an out-of-zone NS/glue pair.
//	victim.net.  answers host.victim.net. A 192.0.2.80 (the truth).
//
// With validation off, bailiwick filtering is the only thing standing between
// the forged record and the client.
type bailiwickFixture struct {
	cfgRoot       string
	mapper        func(string) string
	victimAsked   *int64
	attackerAsked *int64
	stop          func()
}

const (
	forgedAddr = "6.6.6.6"
	realAddr   = "192.0.2.80"
)

func newBailiwickFixture(t *testing.T) *bailiwickFixture {
	t.Helper()

	var ignore int64
	softNeg := func(zone string) *dns.Msg {
		m := &dns.Msg{}
		m.Authoritative = true
		if zone == "." {
			m.Ns = []dns.RR{mustRR(t, ". 30 IN SOA a.root. hostmaster.root. 1 30 30 30 30")}
		} else {
			m.Ns = []dns.RR{mustRR(t, zone+" 30 IN SOA ns."+zone+" hostmaster."+zone+" 1 30 30 30 30")}
		}
		return m
	}

	attackerAsked := new(int64)
	attackerAddr, stopAttacker := startMockAuth(t, &ignore, func(q dns.Question) *dns.Msg {
		name := dns.CanonicalName(q.Name)
		if name == "www.example.com." && q.Qtype == dns.TypeA {
			atomic.AddInt64(attackerAsked, 1)
			m := &dns.Msg{}
			m.Authoritative = true
			m.Answer = []dns.RR{
				mustRR(t, "www.example.com. 300 IN CNAME host.victim.net."),
				mustRR(t, "host.victim.net. 86400 IN A "+forgedAddr),
			}
			m.Ns = []dns.RR{mustRR(t, "victim.net. 86400 IN NS ns.evil.example.com.")}
			m.Extra = []dns.RR{mustRR(t, "ns.evil.example.com. 86400 IN A 6.6.6.53")}
			return m
		}
		return softNeg("example.com.")
	})

	victimAsked := new(int64)
	victimAddr, stopVictim := startMockAuth(t, &ignore, func(q dns.Question) *dns.Msg {
		name := dns.CanonicalName(q.Name)
		if name == "host.victim.net." && q.Qtype == dns.TypeA {
			atomic.AddInt64(victimAsked, 1)
			m := &dns.Msg{}
			m.Authoritative = true
			m.Answer = []dns.RR{mustRR(t, "host.victim.net. 300 IN A "+realAddr)}
			return m
		}
		return softNeg("victim.net.")
	})

	rootAddr, stopRoot := startMockAuth(t, &ignore, func(q dns.Question) *dns.Msg {
		name := dns.CanonicalName(q.Name)
		if name == "." && q.Qtype == dns.TypeNS {
			m := &dns.Msg{}
			m.Authoritative = true
			m.Answer = []dns.RR{mustRR(t, ". 3600 IN NS a.root.")}
			return m
		}
		if q.Qtype == dns.TypeDS {
			return softNeg(".")
		}
		switch {
		case dns.IsSubDomain("example.com.", name):
			m := &dns.Msg{}
			m.Ns = []dns.RR{mustRR(t, "example.com. 3600 IN NS ns.example.com.")}
			m.Extra = []dns.RR{mustRR(t, "ns.example.com. 3600 IN A 192.0.2.21")}
			return m
		case dns.IsSubDomain("victim.net.", name):
			m := &dns.Msg{}
			m.Ns = []dns.RR{mustRR(t, "victim.net. 3600 IN NS ns.victim.net.")}
			m.Extra = []dns.RR{mustRR(t, "ns.victim.net. 3600 IN A 192.0.2.22")}
			return m
		}
		return softNeg(".")
	})

	remap := map[string]string{
		"192.0.2.21:53": attackerAddr,
		"192.0.2.22:53": victimAddr,
	}
	return &bailiwickFixture{
		cfgRoot: rootAddr,
		mapper: func(addr string) string {
			if to, ok := remap[addr]; ok {
				return to
			}
			return addr
		},
		victimAsked:   victimAsked,
		attackerAsked: attackerAsked,
		stop: func() {
			stopRoot()
			stopVictim()
			stopAttacker()
		},
	}
}

func (f *bailiwickFixture) handler() *DNSHandler {
	base := makeTestConfig()
	cfg := *base
	cfg.RootServers = []string{f.cfgRoot}
	cfg.Root6Servers = nil
	cfg.IPv6Access = false
	cfg.DNSSEC = "off"
	cfg.CacheSize = 1024
	cfg.RateLimit = 0

	h := New(&cfg)
	h.resolver.resolveTarget.Store(&f.mapper)
	return h
}

// addrsIn returns every A address in the section, and the same addresses
// grouped by owner name.
func addrsIn(rrs []dns.RR) (all []string, byOwner map[string][]string) {
	byOwner = make(map[string][]string)
	for _, rr := range rrs {
		if a, ok := rr.(*dns.A); ok {
			ip := net.IP(a.A).String()
			all = append(all, ip)
			owner := dns.CanonicalName(a.Hdr.Name)
			byOwner[owner] = append(byOwner[owner], ip)
		}
	}
	return all, byOwner
}

func containsAddr(list []string, want string) bool {
	for _, s := range list {
		if s == want {
			return true
		}
	}
	return false
}

// TestAnswerSectionBailiwick_Resolver drives the resolver alone (no cache in
// front). The reply of the example.com. server may speak for example.com.
// only: the alias is in zone and must survive, the address record it volunteers
// for host.victim.net. is not and must be gone before the message leaves the
// resolver — every consumer downstream (cache CNAME chase, NS address lookup,
// dns64, the client) takes the answer section at face value.
func TestAnswerSectionBailiwick_Resolver(t *testing.T) {
	f := newBailiwickFixture(t)
	defer f.stop()
	h := f.handler()

	req := new(dns.Msg)
	req.SetQuestion("www.example.com.", dns.TypeA)
	req.RecursionDesired = true

	resp := h.handle(context.Background(), req)
	if resp == nil || resp.Rcode != dns.RcodeSuccess {
		t.Fatalf("expected NOERROR, got %v", resp)
	}

	sawAlias := false
	for _, rr := range resp.Answer {
		if c, ok := rr.(*dns.CNAME); ok && dns.CanonicalName(c.Hdr.Name) == "www.example.com." {
			sawAlias = true
		}
		if !dns.IsSubDomain("example.com.", dns.CanonicalName(rr.Header().Name)) {
			t.Errorf("resolver relayed an answer record owned outside example.com. from the example.com. server: %s", rr)
		}
	}
	if !sawAlias {
		t.Errorf("the in-zone alias www.example.com. CNAME host.victim.net. was lost: %v", resp.Answer)
	}
	for _, rr := range append(append([]dns.RR{}, resp.Ns...), resp.Extra...) {
		if rr.Header().Rrtype == dns.TypeOPT {
			continue
		}
		t.Errorf("authority/additional record relayed from a positive answer: %s", rr)
	}
}

// TestAnswerSectionBailiwick_FullPipeline is the client's view: cache in front
// of the resolver, cold cache, one query.
func TestAnswerSectionBailiwick_FullPipeline(t *testing.T) {
	f := newBailiwickFixture(t)
	defer f.stop()
	h := f.handler()

	cm := cachemw.New(h.cfg)
	defer cm.Stop()
	sub := &chainQueryer{handlers: []middleware.Handler{cm, h}}
	cm.SetQueryer(sub)
	cm.SetPrefetchQueryer(sub)
	var q middleware.Queryer = sub
	h.resolver.queryer.Store(&q)

	ask := func(name string) *dns.Msg {
		t.Helper()
		req := new(dns.Msg)
		req.SetQuestion(name, dns.TypeA)
		w := mock.NewWriter("udp", "127.0.0.1:0")
		ch := middleware.NewChain([]middleware.Handler{cm, h})
		ch.Reset(w, req)
		ch.Next(context.Background())
		if !w.Written() {
			t.Fatalf("%s: no response written", name)
		}
		return w.Msg()
	}

	// (a) the first, cold-cache reply.
	first := ask("www.example.com.")
	if first.Rcode != dns.RcodeSuccess {
		t.Fatalf("first query: rcode=%s", dns.RcodeToString[first.Rcode])
	}
	all, byOwner := addrsIn(first.Answer)
	if containsAddr(all, forgedAddr) {
		t.Errorf("(a) forged out-of-zone record reached the client on the first query: %v", first.Answer)
	}
	if !containsAddr(byOwner["host.victim.net."], realAddr) {
		t.Errorf("(a) first reply does not carry the address victim.net. itself publishes (%s): %v", realAddr, first.Answer)
	}

	// (c) the alias target has to be re-resolved from the root, i.e. the
	// victim.net. server must actually have been asked.
	if n := atomic.LoadInt64(f.victimAsked); n == 0 {
		t.Errorf("(c) host.victim.net. was never asked of victim.net.: the target's address was taken from the example.com. reply")
	}

	// (b) what was cached, under either key.
	store, ok := cm.Store().(*cachemw.Store)
	if !ok {
		t.Fatal("cache StoreProvider did not return *cache.Store")
	}
	for _, name := range []string{"www.example.com.", "host.victim.net."} {
		probe := new(dns.Msg)
		probe.SetQuestion(name, dns.TypeA)
		entry, ok := store.Lookup(probe)
		if !ok {
			continue
		}
		msg := entry.ToMsg(probe)
		if msg == nil {
			continue
		}
		if cached, _ := addrsIn(msg.Answer); containsAddr(cached, forgedAddr) {
			t.Errorf("(b) forged record cached under %s: %v", name, msg.Answer)
		}
	}

	// And the replies served from that cache.
	for _, name := range []string{"www.example.com.", "host.victim.net."} {
		again := ask(name)
		if got, _ := addrsIn(again.Answer); containsAddr(got, forgedAddr) {
			t.Errorf("forged record served for %s on a later query: %v", name, again.Answer)
		}
	}
}

// TestAnswerSectionBailiwick_SignedVictim shows that turning validation on
// does not close the gap: the reply is validated against the zone that was
// asked, and when that zone is provably unsigned there is nothing to check.
// The name the forged record speaks for lives in a signed zone, and is still
// handed out — validation of victim data never happens because victim.net. is
// never asked.
func TestAnswerSectionBailiwick_SignedVictim(t *testing.T) {
	n := newHermeticNet(t)
	bank := n.Delegate("bank.test.")
	bank.Serve(mustRR(t, "host.bank.test. 300 IN A "+realAddr))
	evil := n.DelegateInsecure("evil.test.")
	evil.server.serve("www.evil.test.", dns.TypeA,
		mustRR(t, "www.evil.test. 300 IN CNAME host.bank.test."),
		mustRR(t, "host.bank.test. 86400 IN A "+forgedAddr),
	)

	h := n.Handler()
	req := new(dns.Msg)
	req.SetQuestion("www.evil.test.", dns.TypeA)
	req.RecursionDesired = true
	req.SetEdns0(1232, true)

	resp := h.handle(context.Background(), req)
	if resp == nil || resp.Rcode != dns.RcodeSuccess {
		t.Fatalf("expected NOERROR, got %v", resp)
	}
	if got, _ := addrsIn(resp.Answer); containsAddr(got, forgedAddr) {
		t.Errorf("unsigned evil.test. supplied an address for a name in signed bank.test. and it was relayed: %v", resp.Answer)
	}
	if len(resp.Answer) == 0 {
		t.Errorf("the in-zone alias was lost")
	}
}
