package resolver

import (
	"context"
	"net"
	"sync/atomic"
	"testing"
	"time"

	"github.com/miekg/dns"
	"github.com/semihalev/sdns/internal/mock"
	"github.com/semihalev/sdns/middleware"
	cachemw "github.com/semihalev/sdns/middleware/cache"
)

// Once a parent re-points (or withdraws) a delegation, everything learned
// through the old one must stop being used when its lease ends. The answer
// cache, the DS/DNSKEY cache and the delegation cache all carry that lease;
// the resolver's nameserver-address cache (glueV4/glueV6) carries no lifetime
// at all, and lookupNSAddrV4 consults it before anything else.
//
// Topology (every TTL is 1s, so every lease and every cached record is gone
// after the sleep below):
//
//	.        delegates hoster. (NS ns.hoster., glue = 192.0.2.21, later 192.0.2.22)
//	         delegates victim. (NS ns.hoster., an out-of-zone host: no glue)
//	hoster.  OLD operator at .21, NEW operator at .22; both publish their own
//	         address for ns.hoster. and serve the zones they host, victim. among them.
//
// History: a client resolves www.victim. (the address of ns.hoster. is learned
// through the old hoster. delegation). The root then re-points hoster. to the
// new operator. After every lease has run out the client asks again.
func TestGhostDomain_NameserverAddressOutlivesItsDelegation(t *testing.T) {
	var ignore int64

	softNeg := func(zone string) *dns.Msg {
		m := &dns.Msg{}
		m.Authoritative = true
		if zone == "." {
			m.Ns = []dns.RR{mustRR(t, ". 1 IN SOA a.root. hostmaster.root. 1 30 30 30 1")}
		} else {
			m.Ns = []dns.RR{mustRR(t, zone+" 1 IN SOA ns."+zone+" hostmaster."+zone+" 1 30 30 30 1")}
		}
		return m
	}

	// An operator's server: authoritative for hoster. and for the zones it
	// hosts. self is the address it publishes for ns.hoster., www what it
	// answers for www.victim.
	operator := func(self, www string, hits *atomic.Int64) func(q dns.Question) *dns.Msg {
		return func(q dns.Question) *dns.Msg {
			name := dns.CanonicalName(q.Name)
			m := &dns.Msg{}
			m.Authoritative = true
			switch {
			case name == "ns.hoster." && q.Qtype == dns.TypeA:
				m.Answer = []dns.RR{mustRR(t, "ns.hoster. 1 IN A "+self)}
			case name == "www.victim." && q.Qtype == dns.TypeA:
				hits.Add(1)
				m.Answer = []dns.RR{mustRR(t, "www.victim. 1 IN A "+www)}
			case dns.IsSubDomain("victim.", name):
				return softNeg("victim.")
			default:
				return softNeg("hoster.")
			}
			return m
		}
	}

	var oldHits, newHits atomic.Int64
	oldAddr, stopOld := startMockAuth(t, &ignore, operator("192.0.2.21", "192.0.2.66", &oldHits))
	defer stopOld()
	newAddr, stopNew := startMockAuth(t, &ignore, operator("192.0.2.22", "192.0.2.80", &newHits))
	defer stopNew()

	var repointed atomic.Bool
	rootAddr, stopRoot := startMockAuth(t, &ignore, func(q dns.Question) *dns.Msg {
		name := dns.CanonicalName(q.Name)
		switch {
		case name == "." && q.Qtype == dns.TypeNS:
			m := &dns.Msg{}
			m.Authoritative = true
			m.Answer = []dns.RR{mustRR(t, ". 3600 IN NS a.root.")}
			return m
		case q.Qtype == dns.TypeDS:
			return softNeg(".")
		case dns.IsSubDomain("hoster.", name):
			glue := "192.0.2.21"
			if repointed.Load() {
				glue = "192.0.2.22"
			}
			m := &dns.Msg{}
			m.Ns = []dns.RR{mustRR(t, "hoster. 1 IN NS ns.hoster.")}
			m.Extra = []dns.RR{mustRR(t, "ns.hoster. 1 IN A "+glue)}
			return m
		case dns.IsSubDomain("victim.", name):
			m := &dns.Msg{}
			m.Ns = []dns.RR{mustRR(t, "victim. 1 IN NS ns.hoster.")}
			return m
		}
		return softNeg(".")
	})
	defer stopRoot()

	remap := map[string]string{
		"192.0.2.21:53": oldAddr,
		"192.0.2.22:53": newAddr,
	}
	mapper := func(addr string) string {
		if to, ok := remap[addr]; ok {
			return to
		}
		return addr
	}

	base := makeTestConfig()
	cfg := *base
	cfg.RootServers = []string{rootAddr}
	cfg.Root6Servers = nil
	cfg.IPv6Access = false
	cfg.DNSSEC = "off"
	cfg.CacheSize = 1024
	cfg.Prefetch = 0
	cfg.RateLimit = 0

	h := New(&cfg)
	h.resolver.resolveTarget.Store(&mapper)

	cm := cachemw.New(&cfg)
	defer cm.Stop()
	cm.SetPrefetchQueryer(&chainQueryer{handlers: []middleware.Handler{h}})
	// Internal lookups (NS addresses, CNAME targets) take the same
	// cache+resolver pipeline a client does, as sdns.go wires it.
	full := &chainQueryer{handlers: []middleware.Handler{cm, h}}
	cm.SetQueryer(full)
	h.SetQueryer(full)
	h.SetStore(cm.Store())

	ask := func(label string) *dns.Msg {
		t.Helper()
		req := new(dns.Msg)
		req.SetQuestion("www.victim.", dns.TypeA)
		w := mock.NewWriter("udp", "127.0.0.1:0")
		ch := middleware.NewChain([]middleware.Handler{cm, h})
		ch.Reset(w, req)
		ch.Next(context.Background())
		if !w.Written() {
			t.Fatalf("%s: no response written", label)
		}
		return w.Msg()
	}
	answerOf := func(m *dns.Msg) string {
		for _, rr := range m.Answer {
			if a, ok := rr.(*dns.A); ok {
				return a.A.String()
			}
		}
		return ""
	}

	// 1. While the old operator holds hoster., it serves victim.
	first := ask("before")
	if first.Rcode != dns.RcodeSuccess || answerOf(first) != "192.0.2.66" {
		t.Fatalf("before: expected the old operator's answer, got rcode=%s answer=%q",
			dns.RcodeToString[first.Rcode], answerOf(first))
	}

	// 2. The root re-points hoster. to the new operator; every 1s lease and
	//    every 1s record learned so far runs out.
	repointed.Store(true)
	time.Sleep(1500 * time.Millisecond)
	oldBefore := oldHits.Load()

	// 3. sdns must now follow the parent: ns.hoster. is whatever the new
	//    hoster. delegation says it is.
	second := ask("after")
	if got := oldHits.Load() - oldBefore; got != 0 {
		t.Errorf("the operator hoster. was taken away from was asked for www.victim. %d more time(s) after every lease had ended", got)
	}
	if got := answerOf(second); got == "192.0.2.66" {
		t.Errorf("client received %s for www.victim. — the answer of the operator whose delegation the parent had already replaced (rcode=%s)",
			got, dns.RcodeToString[second.Rcode])
	} else if second.Rcode != dns.RcodeSuccess || got != "192.0.2.80" {
		t.Errorf("after: expected the new operator's answer 192.0.2.80, got rcode=%s answer=%q (new operator asked %d time(s))",
			dns.RcodeToString[second.Rcode], got, newHits.Load())
	}
	if addrs, ok := h.resolver.getIPv4Cache("ns.hoster."); ok {
		for _, a := range addrs {
			if net.IP(a.AsSlice()).Equal(net.ParseIP("192.0.2.21")) {
				t.Errorf("nameserver-address cache still maps ns.hoster. to %s, learned through a delegation whose 1s lease ended %s ago",
					a, 1500*time.Millisecond)
			}
		}
	}
}
