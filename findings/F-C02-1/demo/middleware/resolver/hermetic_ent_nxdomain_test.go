package resolver

import (
	"testing"

	"github.com/miekg/dns"
)

// TestHermeticDNSSECNameErrorForEmptyNonTerminalRefused answers a query for
// an empty non-terminal with NXDOMAIN and the zone's genuine, correctly
// signed NSEC chain — what an on-path attacker gets by flipping the rcode of
// the honest NODATA answer and replaying the apex NSEC next to it, or what
// a broken authority sends by itself.
//
// The zone holds entnx.test., a.entnx.test. and x.b.entnx.test., so its
// chain is entnx.test. -> a.entnx.test. -> x.b.entnx.test. -> entnx.test.
// The middle record spans b.entnx.test. in canonical order, but its next
// name lies below b.entnx.test.: it proves the name exists as an empty
// non-terminal, and a validator must not take it as proof of a name error.
func TestHermeticDNSSECNameErrorForEmptyNonTerminalRefused(t *testing.T) {
	net := newHermeticNet(t)
	zone := net.Delegate("entnx.test.")
	zone.Serve(mustRR(t, "a.entnx.test. 300 IN A 192.0.2.21"))
	zone.Serve(mustRR(t, "x.b.entnx.test. 300 IN A 192.0.2.22"))

	nsec := func(owner, next string, types ...uint16) []dns.RR {
		rr := &dns.NSEC{
			Hdr: dns.RR_Header{
				Name: owner, Rrtype: dns.TypeNSEC, Class: dns.ClassINET, Ttl: 3600,
			},
			NextDomain: next,
			TypeBitMap: types,
		}
		return []dns.RR{rr, zone.key.sign(t, []dns.RR{rr})}
	}
	proof := nsec("entnx.test.", "a.entnx.test.",
		dns.TypeNS, dns.TypeSOA, dns.TypeRRSIG, dns.TypeNSEC, dns.TypeDNSKEY)
	proof = append(proof, nsec("a.entnx.test.", "x.b.entnx.test.",
		dns.TypeA, dns.TypeRRSIG, dns.TypeNSEC)...)
	zone.server.setNXProof(proof)

	handler := net.Handler()

	// The leaf under the empty non-terminal resolves, so the subtree the
	// denial would cut off is really there.
	leaf := hermeticAsk(t, handler, "x.b.entnx.test.", dns.TypeA)
	if leaf.Rcode != dns.RcodeSuccess || len(leaf.Answer) == 0 || !leaf.AuthenticatedData {
		t.Fatalf("x.b.entnx.test. A: rcode=%s answers=%d ad=%v, want a validated answer",
			dns.RcodeToString[leaf.Rcode], len(leaf.Answer), leaf.AuthenticatedData)
	}

	resp := hermeticAsk(t, handler, "b.entnx.test.", dns.TypeA)

	if zone.asked("b.entnx.test.", dns.TypeA) == 0 {
		t.Fatal("the zone was never asked for the empty non-terminal")
	}
	if resp.Rcode == dns.RcodeNameError {
		t.Fatalf("NXDOMAIN (AD=%v) returned for b.entnx.test., which the "+
			"response's own NSEC a.entnx.test. -> x.b.entnx.test. proves to be "+
			"an empty non-terminal", resp.AuthenticatedData)
	}
	if resp.Rcode != dns.RcodeServerFailure {
		t.Fatalf("rcode = %s, want SERVFAIL: a name error the proof contradicts "+
			"must be refused", dns.RcodeToString[resp.Rcode])
	}
	if resp.AuthenticatedData {
		t.Fatal("a refused denial was reported as authenticated")
	}
}
