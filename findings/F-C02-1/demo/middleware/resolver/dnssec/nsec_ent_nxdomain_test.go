package dnssec

import (
	"testing"

	"github.com/miekg/dns"
)

func entTestNSEC(owner, next string, types ...uint16) *dns.NSEC {
	return &dns.NSEC{
		Hdr: dns.RR_Header{
			Name: owner, Rrtype: dns.TypeNSEC, Class: dns.ClassINET, Ttl: 300,
		},
		NextDomain: next,
		TypeBitMap: append(append([]uint16{}, types...), dns.TypeRRSIG, dns.TypeNSEC),
	}
}

func entTestNXDOMAIN(qname string) *dns.Msg {
	msg := new(dns.Msg)
	msg.SetQuestion(qname, dns.TypeA)
	msg.Rcode = dns.RcodeNameError
	return msg
}

// An NSEC whose next name lies below QNAME says QNAME is an empty
// non-terminal (RFC 4592 §2.2.2, RFC 8198 Appendix B): the name exists, so a
// name error for it is never proven, however well the same record "covers"
// QNAME in canonical order.
func TestVerifyNameErrorNSECRejectsEmptyNonTerminal(t *testing.T) {
	// The genuine chain of a zone holding example., a.example. and
	// x.b.example. (and, for the deeper cases, x.y.c.example.).
	apex := entTestNSEC("example.", "a.example.", dns.TypeNS, dns.TypeSOA)
	aToXB := entTestNSEC("a.example.", "x.b.example.", dns.TypeA)

	for _, tc := range []struct {
		name  string
		qname string
		set   []dns.RR
	}{
		{
			name:  "next name is a child of qname",
			qname: "b.example.",
			set:   []dns.RR{apex, aToXB},
		},
		{
			name:  "single apex record spans qname and the wildcard",
			qname: "b.example.",
			set:   []dns.RR{entTestNSEC("example.", "x.b.example.", dns.TypeNS, dns.TypeSOA)},
		},
		{
			name:  "next name is a grandchild of qname",
			qname: "c.example.",
			set:   []dns.RR{apex, entTestNSEC("a.example.", "x.y.c.example.", dns.TypeA)},
		},
		{
			name:  "inner empty non-terminal",
			qname: "y.c.example.",
			set: []dns.RR{
				apex,
				entTestNSEC("a.example.", "x.y.c.example.", dns.TypeA),
			},
		},
		{
			name:  "case differs between qname and next name",
			qname: "B.Example.",
			set:   []dns.RR{apex, aToXB},
		},
	} {
		t.Run(tc.name, func(t *testing.T) {
			if err := VerifyNameErrorNSEC(entTestNXDOMAIN(tc.qname), tc.set); err == nil {
				t.Fatalf("NXDOMAIN for %s accepted, but the NSEC set proves it is "+
					"an empty non-terminal", tc.qname)
			}
		})
	}
}

// The source of synthesis can be an empty non-terminal too (something lives
// below *.example.). It then exists and answers QNAME with NODATA, so the
// record spanning it does not show that no wildcard could have matched.
func TestVerifyNameErrorNSECRejectsEmptyNonTerminalWildcard(t *testing.T) {
	set := []dns.RR{
		entTestNSEC("example.", "x.*.example.", dns.TypeNS, dns.TypeSOA),
		entTestNSEC("x.*.example.", "z.example.", dns.TypeA),
	}
	if err := VerifyNameErrorNSEC(entTestNXDOMAIN("q.example."), set); err == nil {
		t.Fatal("NXDOMAIN accepted although *.example. exists as an empty non-terminal")
	}
}

// The control: the same zone still proves names that really are absent.
func TestVerifyNameErrorNSECStillAcceptsAbsentNames(t *testing.T) {
	apex := entTestNSEC("example.", "a.example.", dns.TypeNS, dns.TypeSOA)
	aToXB := entTestNSEC("a.example.", "x.b.example.", dns.TypeA)
	xbToApex := entTestNSEC("x.b.example.", "example.", dns.TypeA)

	for _, tc := range []struct {
		qname string
		set   []dns.RR
	}{
		// Sorts between a.example. and x.b.example. without being above
		// the latter.
		{"aa.example.", []dns.RR{apex, aToXB}},
		// A sibling of the next name, below the empty non-terminal.
		{"w.b.example.", []dns.RR{apex, aToXB}},
		// Past the last name of the zone: the wrap-around record.
		{"c.example.", []dns.RR{apex, xbToApex}},
		// Below an existing leaf.
		{"below.x.b.example.", []dns.RR{apex, xbToApex}},
	} {
		if err := VerifyNameErrorNSEC(entTestNXDOMAIN(tc.qname), tc.set); err != nil {
			t.Errorf("NXDOMAIN for absent %s refused: %v", tc.qname, err)
		}
	}
}
