package resolver

import (
	"context"
	"fmt"
	"net"
	"sync"
	"testing"
	"time"

	"github.com/miekg/dns"
	"github.com/semihalev/sdns/internal/mock"
	"github.com/semihalev/sdns/middleware"
	cachemw "github.com/semihalev/sdns/middleware/cache"
	"github.com/semihalev/sdns/middleware/edns"
)

// startRecordingAuth is a loopback authority that records, for every query it
// receives, each EDNS option found in ANY OPT record of the additional
// section, then answers through handle.
func startRecordingAuth(t *testing.T, seen *[]string, mu *sync.Mutex, handle func(r *dns.Msg) *dns.Msg) string {
	t.Helper()
	pc, err := net.ListenPacket("udp", "127.0.0.1:0")
	if err != nil {
		t.Fatalf("listen udp: %v", err)
	}
	mux := dns.NewServeMux()
	mux.HandleFunc(".", func(w dns.ResponseWriter, r *dns.Msg) {
		if len(r.Question) != 1 {
			return
		}
		mu.Lock()
		for _, rr := range r.Extra {
			opt, ok := rr.(*dns.OPT)
			if !ok {
				continue
			}
			for _, o := range opt.Option {
				*seen = append(*seen, fmt.Sprintf("%s %s: option %d (%s)",
					r.Question[0].Name, dns.TypeToString[r.Question[0].Qtype], o.Option(), o.String()))
			}
		}
		mu.Unlock()
		_ = w.WriteMsg(handle(r))
	})
	s := &dns.Server{Net: "udp", PacketConn: pc, Handler: mux}
	go func() { _ = s.ActivateAndServe() }()
	time.Sleep(10 * time.Millisecond)
	t.Cleanup(func() { _ = s.Shutdown() })
	return pc.LocalAddr().String()
}

// TestClientOptionsInSecondOPTDoNotReachUpstream: ECS forwarding is OFF (the
// default), so every client-supplied EDNS option must be gone before any
// upstream query. The client sends a query whose additional section holds two
// OPT records (the UDP/TCP ingress admits ARCOUNT<=2; DoH/DoQ admit any): the
// options ride in the first one.
func TestClientOptionsInSecondOPTDoNotReachUpstream(t *testing.T) {
	var (
		mu   sync.Mutex
		seen []string
	)

	geoAddr := startRecordingAuth(t, &seen, &mu, func(r *dns.Msg) *dns.Msg {
		q := r.Question[0]
		reply := new(dns.Msg)
		reply.SetReply(r)
		reply.Authoritative = true
		if dns.CanonicalName(q.Name) == "www.geo." && q.Qtype == dns.TypeA {
			reply.Answer = []dns.RR{mustRR(t, "www.geo. 300 IN A 192.0.2.100")}
			return reply
		}
		reply.Ns = []dns.RR{mustRR(t, "geo. 30 IN SOA ns.geo. hostmaster.geo. 1 30 30 30 30")}
		return reply
	})
	rootAddr := startRecordingAuth(t, &seen, &mu, func(r *dns.Msg) *dns.Msg {
		q := r.Question[0]
		name := dns.CanonicalName(q.Name)
		reply := new(dns.Msg)
		reply.SetReply(r)
		switch {
		case name == "." && q.Qtype == dns.TypeNS:
			reply.Authoritative = true
			reply.Answer = []dns.RR{mustRR(t, ". 3600 IN NS a.root.")}
		case q.Qtype == dns.TypeDS:
			reply.Authoritative = true
			reply.Ns = []dns.RR{mustRR(t, ". 30 IN SOA a.root. hostmaster.root. 1 30 30 30 30")}
		case dns.IsSubDomain("geo.", name):
			reply.Ns = []dns.RR{mustRR(t, "geo. 3600 IN NS ns.geo.")}
			reply.Extra = []dns.RR{mustRR(t, "ns.geo. 3600 IN A 192.0.2.31")}
		default:
			reply.Authoritative = true
			reply.Ns = []dns.RR{mustRR(t, ". 30 IN SOA a.root. hostmaster.root. 1 30 30 30 30")}
		}
		return reply
	})

	remap := map[string]string{"192.0.2.31:53": geoAddr}
	mapper := func(addr string) string {
		if to, ok := remap[addr]; ok {
			return to
		}
		return addr
	}

	base := makeTestConfig()
	cfg := *base
	cfg.RootServers = []string{rootAddr}
	cfg.Root6Servers = nil
	cfg.DNSSEC = "off"
	cfg.CacheSize = 1024
	cfg.RateLimit = 0
	// cfg.ECS.Enabled stays false: strip everything.

	h := New(&cfg)
	h.resolver.resolveTarget.Store(&mapper)
	em := edns.New(&cfg)
	cm := cachemw.New(&cfg)
	defer cm.Stop()
	sub := &chainQueryer{handlers: []middleware.Handler{h}}
	cm.SetPrefetchQueryer(sub)
	cm.SetQueryer(sub)

	// The client's query as it comes off the wire: two OPT records, the
	// options in the first. Round-trip through Pack/Unpack so the message is
	// exactly what the server's decoded ingress would hand the chain.
	first := new(dns.OPT)
	first.Hdr.Name = "."
	first.Hdr.Rrtype = dns.TypeOPT
	first.SetUDPSize(1232)
	first.Option = []dns.EDNS0{
		&dns.EDNS0_SUBNET{
			Code: dns.EDNS0SUBNET, Family: 1, SourceNetmask: 32,
			Address: net.IPv4(198, 51, 100, 77).To4(),
		},
		&dns.EDNS0_LOCAL{Code: 65001, Data: []byte("client-secret")},
	}
	second := new(dns.OPT)
	second.Hdr.Name = "."
	second.Hdr.Rrtype = dns.TypeOPT
	second.SetUDPSize(1232)

	wireReq := new(dns.Msg)
	wireReq.SetQuestion("www.geo.", dns.TypeA)
	wireReq.Extra = []dns.RR{first, second}
	raw, err := wireReq.Pack()
	if err != nil {
		t.Fatalf("pack: %v", err)
	}
	req := new(dns.Msg)
	if err := req.Unpack(raw); err != nil {
		t.Fatalf("unpack: %v", err)
	}
	if len(req.Extra) != 2 {
		t.Fatalf("fixture: want 2 additional records, got %d", len(req.Extra))
	}

	w := mock.NewWriter("udp", "127.0.0.1:0")
	ch := middleware.NewChain([]middleware.Handler{em, cm, h})
	ch.Reset(w, req)
	ch.Next(context.Background())
	if !w.Written() {
		t.Fatal("no response written")
	}
	t.Logf("client got rcode=%s", dns.RcodeToString[w.Msg().Rcode])

	mu.Lock()
	defer mu.Unlock()
	for _, s := range seen {
		t.Errorf("client-supplied EDNS option reached an upstream server with ECS disabled: %s", s)
	}

	// No ECS option may come back to the client either, in any OPT.
	for _, rr := range w.Msg().Extra {
		if opt, ok := rr.(*dns.OPT); ok {
			for _, o := range opt.Option {
				if _, isECS := o.(*dns.EDNS0_SUBNET); isECS {
					t.Errorf("reply to the client carries an ECS option: %s", o.String())
				}
			}
		}
	}
}
