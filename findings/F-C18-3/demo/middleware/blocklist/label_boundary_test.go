package blocklist

import (
	"context"
	"testing"

	"github.com/miekg/dns"
	"github.com/semihalev/sdns/config"
	"github.com/semihalev/sdns/internal/mock"
	"github.com/semihalev/sdns/middleware"
)

type reached struct{ n int }

func (r *reached) Name() string { return "reached" }
func (r *reached) ServeDNS(ctx context.Context, ch *middleware.Chain) {
	r.n++
	ch.Next(ctx)
}

// Matching is on whole labels. A dot inside a label is label content, not a
// label boundary: the two-label name whose first label is the eleven bytes
// "foo.example" is a child of com. and of nothing else. It is neither
// example.com. nor below it, so a block on example.com. must leave it alone.
func TestDotInsideLabelIsNotALabelBoundary(t *testing.T) {
	cfg := new(config.Config)
	cfg.Nullroute = "0.0.0.0"
	cfg.Nullroutev6 = "::0"
	cfg.BlockListDir = t.TempDir()
	b := New(cfg)
	b.Set("example.com")
	b.Set("*.wild.test")

	// Build the name on the wire, label by label, and let the library
	// decode it — this is what a client can really send.
	wireName := func(labels ...string) string {
		var buf []byte
		for _, l := range labels {
			buf = append(buf, byte(len(l)))
			buf = append(buf, l...)
		}
		buf = append(buf, 0)
		name, _, err := dns.UnpackDomainName(buf, 0)
		if err != nil {
			t.Fatal(err)
		}
		return name
	}

	plain := wireName("foo.example", "com") // foo\.example.com.
	if got := dns.CountLabel(plain); got != 2 {
		t.Fatalf("%q has %d labels, want 2", plain, got)
	}
	if dns.IsSubDomain("example.com.", plain) {
		t.Fatalf("library says %q is below example.com.", plain)
	}
	if b.Exists(plain) {
		t.Errorf("Exists(%q) = true: a name whose labels are [foo.example com] is blocked by the entry example.com.", plain)
	}

	wild := wireName("x.wild", "test") // x\.wild.test.
	if b.Exists(wild) {
		t.Errorf("Exists(%q) = true: labels [x.wild test] matched the wildcard *.wild.test", wild)
	}

	// Real subdomains, including ones with an escaped dot further left,
	// stay blocked.
	for _, name := range []string{"example.com.", "a.example.com.", wireName("a.b", "example", "com"), "y.wild.test."} {
		if !b.Exists(name) {
			t.Errorf("Exists(%q) = false, want blocked", name)
		}
	}

	// On the query path: the near-miss must travel on to the next handler
	// untouched instead of being null-routed.
	next := &reached{}
	ch := middleware.NewChain([]middleware.Handler{b, next})
	req := new(dns.Msg)
	req.SetQuestion(plain, dns.TypeA)
	mw := mock.NewWriter("udp", "127.0.0.1:0")
	ch.Reset(mw, req)
	ch.Next(context.Background())
	if mw.Written() {
		t.Errorf("query for %q was answered by the blocklist: %v", plain, mw.Msg().Answer)
	}
	if next.n != 1 {
		t.Errorf("query for %q did not reach the handler behind the blocklist", plain)
	}

	// The whitelist walks the same hierarchy and has the mirror defect: a
	// whitelisted example.net. exempts the unrelated [ads.example net].
	cfg2 := new(config.Config)
	cfg2.BlockListDir = t.TempDir()
	cfg2.Whitelist = []string{"example.net"}
	b2 := New(cfg2)
	b2.Set("net")
	nearMiss := wireName("ads.example", "net")
	if !b2.Exists(nearMiss) {
		t.Errorf("Exists(%q) = false: whitelist entry example.net. exempted a name that is not below it (net. is blocked)", nearMiss)
	}
}
