package resolver

import (
	"context"
	"testing"
	"time"

	"github.com/miekg/dns"
	"github.com/semihalev/sdns/internal/cache"
	"github.com/semihalev/sdns/internal/mock"
	"github.com/semihalev/sdns/middleware"
	cachemw "github.com/semihalev/sdns/middleware/cache"
)

// A delegation is leased for min(NS TTL, DS TTL, ancestors, 12h) from the
// moment the referral was observed, and nothing learned through it may be
// served past that lease — "even if its own TTL is longer".
//
// The 12h ceiling is applied where the delegation is stored
// (authority.Cache.SetUntil), but the deadline the resolver reports to the
// answer cache for the query that ESTABLISHES the delegation is the raw
// observedAt + NS TTL. Ordinary TLD referrals carry a 172800s NS TTL, so the
// first answer obtained through a new delegation is bounded by "two days",
// i.e. only by its own TTL (up to the cache's 24h maximum) — twice the lease.
//
// Topology: the mock root delegates big. (NS TTL 172800, TEST-NET glue
// remapped to loopback); big.'s server answers www.big. A with TTL 86400.
func TestLeaseCeiling_BoundsTheAnswerOfTheEstablishingQuery(t *testing.T) {
	var ignore int64

	softNeg := func(zone string) *dns.Msg {
		m := &dns.Msg{}
		m.Authoritative = true
		if zone == "." {
			m.Ns = []dns.RR{mustRR(t, ". 30 IN SOA a.root. hostmaster.root. 1 30 30 30 30")}
		} else {
			m.Ns = []dns.RR{mustRR(t, zone+" 30 IN SOA ns."+zone+" hostmaster."+zone+" 1 30 30 30 30")}
		}
		return m
	}

	bigAddr, stopBig := startMockAuth(t, &ignore, func(q dns.Question) *dns.Msg {
		if q.Qtype == dns.TypeA && dns.CanonicalName(q.Name) == "www.big." {
			m := &dns.Msg{}
			m.Authoritative = true
			m.Answer = []dns.RR{mustRR(t, "www.big. 86400 IN A 192.0.2.55")}
			return m
		}
		return softNeg("big.")
	})
	defer stopBig()

	rootAddr, stopRoot := startMockAuth(t, &ignore, func(q dns.Question) *dns.Msg {
		name := dns.CanonicalName(q.Name)
		if name == "." && q.Qtype == dns.TypeNS {
			m := &dns.Msg{}
			m.Authoritative = true
			m.Answer = []dns.RR{mustRR(t, ". 3600 IN NS a.root.")}
			return m
		}
		if q.Qtype == dns.TypeDS {
			return softNeg(".")
		}
		if dns.IsSubDomain("big.", name) {
			m := &dns.Msg{} // referral, with the NS TTL a TLD would use
			m.Ns = []dns.RR{mustRR(t, "big. 172800 IN NS ns.big.")}
			m.Extra = []dns.RR{mustRR(t, "ns.big. 172800 IN A 192.0.2.21")}
			return m
		}
		return softNeg(".")
	})
	defer stopRoot()

	remap := map[string]string{"192.0.2.21:53": bigAddr}
	mapper := func(addr string) string {
		if to, ok := remap[addr]; ok {
			return to
		}
		return addr
	}

	base := makeTestConfig()
	cfg := *base
	cfg.RootServers = []string{rootAddr}
	cfg.Root6Servers = nil
	cfg.IPv6Access = false
	cfg.DNSSEC = "off"
	cfg.CacheSize = 1024
	cfg.Prefetch = 0
	cfg.RateLimit = 0

	h := New(&cfg)
	h.resolver.resolveTarget.Store(&mapper)

	cm := cachemw.New(&cfg)
	defer cm.Stop()
	sub := &chainQueryer{handlers: []middleware.Handler{h}}
	cm.SetPrefetchQueryer(sub)
	cm.SetQueryer(sub)

	ask := func(label string) *dns.Msg {
		t.Helper()
		req := new(dns.Msg)
		req.SetQuestion("www.big.", dns.TypeA)
		w := mock.NewWriter("udp", "127.0.0.1:0")
		ch := middleware.NewChain([]middleware.Handler{cm, h})
		ch.Reset(w, req)
		ch.Next(context.Background())
		if !w.Written() {
			t.Fatalf("%s: no response written", label)
		}
		return w.Msg()
	}

	// The query that establishes the delegation.
	if resp := ask("first"); resp.Rcode != dns.RcodeSuccess || len(resp.Answer) == 0 {
		t.Fatalf("first: expected a positive answer, got rcode=%s answers=%d",
			dns.RcodeToString[resp.Rcode], len(resp.Answer))
	}

	// The lease the delegation cache granted (DNSSEC off: the handler keys
	// the delegation in the CD=1 bucket).
	deleg, err := h.resolver.delegations.Get(cache.Key(dns.Question{Name: "big.", Qtype: dns.TypeNS, Qclass: dns.ClassINET}, true))
	if err != nil {
		t.Fatalf("big. delegation not cached: %v", err)
	}
	leaseLeft := time.Until(deleg.ExpiresAt)
	if leaseLeft > 12*time.Hour+time.Second || leaseLeft < 12*time.Hour-time.Minute {
		t.Fatalf("fixture: expected the 172800s referral to be leased for the 12h ceiling, got %s", leaseLeft)
	}

	// The answer learned through it must stop being served when that lease
	// ends. How long the cache will go on serving it is exactly what a hit
	// reports as the record's TTL.
	probe := new(dns.Msg)
	probe.SetQuestion("www.big.", dns.TypeA)
	store, ok := cm.Store().(*cachemw.Store)
	if !ok {
		t.Fatal("cache StoreProvider did not return *cache.Store")
	}
	entry, ok := store.Lookup(probe)
	if !ok {
		t.Fatal("answer not cached")
	}
	if live := time.Duration(entry.TTL()) * time.Second; live > leaseLeft+time.Second {
		t.Errorf("cached answer stays servable for %s, but the delegation it was learned through is leased for only %s",
			live, leaseLeft.Round(time.Second))
	}

	hit := ask("hit")
	if hit.Rcode != dns.RcodeSuccess || len(hit.Answer) == 0 {
		t.Fatalf("hit: expected a positive answer, got rcode=%s answers=%d",
			dns.RcodeToString[hit.Rcode], len(hit.Answer))
	}
	if ttl := time.Duration(hit.Answer[0].Header().Ttl) * time.Second; ttl > leaseLeft+time.Second {
		t.Errorf("client is told www.big. stays valid for %s — %s past the end of big.'s lease",
			ttl, (ttl - leaseLeft).Round(time.Minute))
	}
}
