package blocklist

import (
	"os"
	"path/filepath"
	"sort"
	"testing"

	"github.com/semihalev/sdns/config"
)

func reloadCfg(t *testing.T) *config.Config {
	t.Helper()
	cfg := new(config.Config)
	cfg.Nullroute = "0.0.0.0"
	cfg.Nullroutev6 = "::0"
	cfg.BlockListDir = t.TempDir()
	return cfg
}

// listOf returns the in-memory list in the form the local file spells it.
func listOf(b *BlockList) []string {
	b.mu.RLock()
	defer b.mu.RUnlock()
	var out []string
	for d := range b.m {
		out = append(out, d)
	}
	for s := range b.wild {
		out = append(out, "*."+s)
	}
	sort.Strings(out)
	return out
}

func equalLists(a, b []string) bool {
	if len(a) != len(b) {
		return false
	}
	for i := range a {
		if a[i] != b[i] {
			return false
		}
	}
	return true
}

// After API additions have completed, the persisted local list must reload
// to exactly the in-memory list. It does not: the file parser drops every
// entry that an entry read earlier already covers, so a restart silently
// shrinks the list — and a later removal of the covering entry then
// unblocks names that the running (never restarted) server keeps blocking.
func TestReloadIsExact_WildcardUnderPlainParent(t *testing.T) {
	cfg := reloadCfg(t)

	live := New(cfg)
	if !live.Set("example.com") || !live.Set("*.sub.example.com") {
		t.Fatal("Set failed")
	}
	want := listOf(live) // [*.sub.example.com. example.com.]

	onDisk, err := os.ReadFile(filepath.Join(cfg.BlockListDir, "local"))
	if err != nil {
		t.Fatal(err)
	}

	// "Restart": a fresh BlockList over the same directory.
	reloaded := New(cfg)
	got := listOf(reloaded)
	if !equalLists(got, want) {
		t.Errorf("reloaded list differs from the in-memory list that was persisted\n in memory: %q\n reloaded:  %q\n local file:\n%s",
			want, got, onDisk)
	}

	// The difference is observable on the query path. The operator lifts
	// the broad block; the narrower wildcard was added separately and must
	// stay in force — it does on the live server, it does not after a
	// restart.
	if !live.Remove("example.com") || !reloaded.Remove("example.com") {
		t.Fatal("Remove failed")
	}
	const probe = "ads.sub.example.com."
	if !live.Exists(probe) {
		t.Fatalf("live server: %s should still be blocked by *.sub.example.com", probe)
	}
	if !reloaded.Exists(probe) {
		t.Errorf("restarted server: %s is no longer blocked — *.sub.example.com was lost on reload", probe)
	}

	// And the loss is now permanent: the restarted server's next
	// persist rewrote local without the wildcard.
	onDisk, _ = os.ReadFile(filepath.Join(cfg.BlockListDir, "local"))
	third := New(cfg)
	if !third.Exists(probe) {
		t.Errorf("after a second restart %s is still unblocked; local file:\n%s", probe, onDisk)
	}
}

// The same loss for two plain entries. The snapshot is written in map
// order, so which of parent/child comes first varies; the batch is re-saved
// until the parent precedes the child in the file, which is the order that
// loses the child. (A file in that order is also what any operator-sorted
// list looks like.)
func TestReloadIsExact_PlainChildUnderPlainParent(t *testing.T) {
	cfg := reloadCfg(t)
	live := New(cfg)

	for i := 0; i < 200; i++ {
		live.SetBatch([]string{"example.org", "tracker.example.org"})
		data, err := os.ReadFile(filepath.Join(cfg.BlockListDir, "local"))
		if err != nil {
			t.Fatal(err)
		}
		s := string(data)
		if idx(s, "\nexample.org.\n") < idx(s, "\ntracker.example.org.\n") {
			break
		}
	}
	want := listOf(live)

	reloaded := New(cfg)
	if got := listOf(reloaded); !equalLists(got, want) {
		t.Errorf("reloaded list differs from the in-memory list\n in memory: %q\n reloaded:  %q", want, got)
	}
	if ok, _ := reloaded.Get("tracker.example.org"); !ok {
		t.Errorf("Get(tracker.example.org) is false after reload; it was listed before the restart")
	}
}

func idx(s, sub string) int {
	for i := 0; i+len(sub) <= len(s); i++ {
		if s[i:i+len(sub)] == sub {
			return i
		}
	}
	return -1
}
