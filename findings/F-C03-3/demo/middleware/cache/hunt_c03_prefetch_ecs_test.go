package cache

import (
	"context"
	"os"
	"sync"
	"testing"
	"time"

	"github.com/miekg/dns"
	"github.com/semihalev/sdns/internal/mock"
	"github.com/semihalev/sdns/middleware"
	"github.com/semihalev/sdns/middleware/edns"
)

// geoHandler is an authority (or forwarder upstream) that tailors its answer to
// the client subnet it is told about and scopes it accordingly; without ECS it
// gives its default answer, unscoped.
type geoHandler struct {
	mu      sync.Mutex
	subnets []string // ECS address seen on each query, "" when none
}

func (h *geoHandler) Name() string { return "geo" }

func (h *geoHandler) seen() []string {
	h.mu.Lock()
	defer h.mu.Unlock()
	return append([]string(nil), h.subnets...)
}

func (h *geoHandler) ServeDNS(_ context.Context, ch *middleware.Chain) {
	req := ch.Request.Msg()
	var sub *dns.EDNS0_SUBNET
	if opt := req.IsEdns0(); opt != nil {
		for _, o := range opt.Option {
			if s, ok := o.(*dns.EDNS0_SUBNET); ok {
				sub = s
			}
		}
	}
	m := new(dns.Msg)
	m.SetReply(req)
	answer, seen := "10.0.0.9", ""
	if sub != nil {
		seen = sub.Address.String()
		if seen == "203.0.113.0" {
			answer = "10.0.0.1"
		}
		o := new(dns.OPT)
		o.Hdr.Name = "."
		o.Hdr.Rrtype = dns.TypeOPT
		o.Option = []dns.EDNS0{&dns.EDNS0_SUBNET{
			Code: dns.EDNS0SUBNET, Family: sub.Family,
			SourceNetmask: sub.SourceNetmask, SourceScope: sub.SourceNetmask,
			Address: sub.Address,
		}}
		m.Extra = []dns.RR{o}
	}
	h.mu.Lock()
	h.subnets = append(h.subnets, seen)
	h.mu.Unlock()
	m.Answer = []dns.RR{makeRR(req.Question[0].Name + " 10 IN A " + answer)}
	_ = ch.Writer.WriteMsg(m)
}

// huntChainQueryer is the prefetch sub-pipeline as sdns wires it, minus the
// handlers irrelevant here: edns, then the upstream — and no cache. The writer
// is the internal one (127.0.0.255), as Queryer's BufferWriter is.
type huntChainQueryer struct{ handlers []middleware.Handler }

func (q *huntChainQueryer) Query(ctx context.Context, req *dns.Msg) (*dns.Msg, error) {
	w := mock.NewWriter("tcp", "127.0.0.255:0")
	ch := middleware.NewChain(q.handlers)
	ch.Reset(w, req)
	ch.Next(ctx)
	if !w.Written() {
		return nil, middleware.ErrNoResponse
	}
	return w.Msg(), nil
}

// A shared entry may be served to an ECS client, and that hit may claim the
// background refresh. The refresh replaces the *shared* entry, so it has to
// ask the question nobody's subnet is attached to. It carried the triggering
// client's ECS option instead: the authority answered for 203.0.113.0/24 and
// scoped it to that /24, and the answer replaced the shared entry — served
// from then on to every subnet and to clients without ECS.
func TestHuntC03_PrefetchDoesNotRefreshSharedEntryWithOneClientsSubnet(t *testing.T) {
	cfg := makeECSTestConfig(t)
	cfg.Prefetch = 90
	cfg.RateLimit = 0
	defer os.RemoveAll(cfg.Directory)
	c := New(cfg)
	defer c.Stop()

	h := &geoHandler{}
	c.SetPrefetchQueryer(&huntChainQueryer{handlers: []middleware.Handler{edns.New(cfg), h}})

	plain := func() *dns.Msg {
		req := new(dns.Msg)
		req.SetQuestion("geo.example.", dns.TypeA)
		req.SetEdns0(4096, false)
		return req
	}

	// 1. A client without ECS fills the shared entry with the default answer.
	if got := answerA(sendAndExpect(t, c, h, plain(), "192.0.2.200")); got != "10.0.0.9" {
		t.Fatalf("client C: got %q, want 10.0.0.9", got)
	}
	probe := plain()
	before, ok := c.store.Lookup(probe)
	if !ok || before.scoped() {
		t.Fatalf("expected a shared entry after the first query (ok=%v)", ok)
	}

	// 2. A client in 203.0.113.0/24 hits the shared entry (by design) and, the
	// entry being inside its prefetch window, claims the refresh.
	reqA := reqWithECS("geo.example.", 1, 24, "203.0.113.0")
	if got := answerA(sendAndExpect(t, c, h, reqA, "203.0.113.5")); got != "10.0.0.9" {
		t.Fatalf("client A: got %q, want the shared 10.0.0.9", got)
	}

	// 3. Wait for the refresh to land.
	deadline := time.Now().Add(3 * time.Second)
	var after *CacheEntry
	for time.Now().Before(deadline) {
		if e, ok := c.store.Lookup(probe); ok && e != before {
			after = e
			break
		}
		time.Sleep(10 * time.Millisecond)
	}
	if after == nil {
		t.Fatalf("prefetch never replaced the shared entry; upstream saw %q", h.seen())
	}

	seen := h.seen()
	if last := seen[len(seen)-1]; last != "" {
		t.Errorf("the refresh of a shared entry was sent upstream with client subnet %s attached", last)
	}

	// 4. Everybody else now reads the refreshed shared entry.
	if got := answerA(sendAndExpect(t, c, h, plain(), "192.0.2.200")); got != "10.0.0.9" {
		t.Errorf("client C (no ECS) was served %q, the answer the authority scoped to 203.0.113.0/24; want 10.0.0.9", got)
	}
	reqB := reqWithECS("geo.example.", 1, 24, "198.51.100.0")
	if got := answerA(sendAndExpect(t, c, h, reqB, "198.51.100.5")); got == "10.0.0.1" {
		t.Errorf("client B (198.51.100.0/24) was served %q, the answer the authority scoped to 203.0.113.0/24", got)
	}
}
