package resolver

import (
	"testing"

	"github.com/miekg/dns"
)

// A wildcard owner name is an ordinary name that can be asked for literally
// (RFC 4592 §2.1.1, RFC 4035 §5.3.2): "*.wild.test. A" is answered with the
// RRset stored at "*.wild.test." and its RRSIG, whose Labels field (2) does
// not count the leading "*" label (RFC 4034 §3.1.3). That answer was not
// synthesised for another name, so it needs no next-closer denial, and a
// correct signed chain must come back NOERROR with AD.
func TestHermeticDNSSECLiteralWildcardOwnerValidates(t *testing.T) {
	net := newHermeticNet(t)
	zone := net.Delegate("wild.test.")
	zone.Serve(mustRR(t, "*.wild.test. 300 IN A 192.0.2.77"))

	resp := hermeticAsk(t, net.Handler(), "*.wild.test.", dns.TypeA)

	if resp.Rcode != dns.RcodeSuccess {
		t.Fatalf("rcode = %s, want NOERROR: the wildcard owner itself was "+
			"asked for, its RRset is signed by the zone and nothing was "+
			"expanded", dns.RcodeToString[resp.Rcode])
	}
	if len(resp.Answer) == 0 {
		t.Fatal("no answer returned")
	}
	if !resp.AuthenticatedData {
		t.Fatal("the wildcard owner's own signed RRset came back unauthenticated")
	}
}
