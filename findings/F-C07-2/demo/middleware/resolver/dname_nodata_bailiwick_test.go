package resolver

import (
	"context"
	"strings"
	"testing"

	"github.com/miekg/dns"
	"github.com/semihalev/sdns/internal/mock"
	"github.com/semihalev/sdns/middleware"
	cachemw "github.com/semihalev/sdns/middleware/cache"
)

// outOfZoneOwners lists the owner names in rrs that are not at or below any
// of the permitted zones. OPT pseudo-records are ignored.
func outOfZoneOwners(rrs []dns.RR, zones ...string) []string {
	var bad []string
	for _, rr := range rrs {
		if rr.Header().Rrtype == dns.TypeOPT {
			continue
		}
		inside := false
		for _, zone := range zones {
			if dns.IsSubDomain(zone, dns.CanonicalName(rr.Header().Name)) {
				inside = true
				break
			}
		}
		if !inside {
			bad = append(bad, rr.String())
		}
	}
	return bad
}

// dnameNODATATargetQueryer answers the DNAME target leg with NODATA: NOERROR,
// no answer, the target zone's SOA in the authority section.
type dnameNODATATargetQueryer struct{ soa dns.RR }

func (q *dnameNODATATargetQueryer) Query(_ context.Context, req *dns.Msg) (*dns.Msg, error) {
	resp := new(dns.Msg)
	resp.SetReply(req)
	resp.CheckingDisabled = req.CheckingDisabled
	resp.Ns = []dns.RR{q.soa}
	return resp, nil
}

// TestDNAMETargetNODATADropsOuterAuthorityAndAdditional drives Resolver.answer
// directly. The outer reply, from the unsigned zone example.com., carries a
// DNAME redirect plus authority/additional records owned outside example.com.
// The DNAME target resolves to NODATA. What leaves answer() must carry only
// the target zone's NODATA proof: the outer reply's authority and additional
// sections are unfiltered data from the wire and must not be relayed.
func TestDNAMETargetNODATADropsOuterAuthorityAndAdditional(t *testing.T) {
	req := new(dns.Msg)
	req.SetQuestion("x.foo.example.com.", dns.TypeA)
	req.CheckingDisabled = true

	outer := new(dns.Msg)
	outer.SetReply(req)
	outer.CheckingDisabled = true
	outer.Answer = []dns.RR{
		mustRR(t, "foo.example.com. 300 IN DNAME bar.example.net."),
		mustRR(t, "x.foo.example.com. 300 IN CNAME x.bar.example.net."),
	}
	outer.Ns = []dns.RR{mustRR(t, "victim.net. 86400 IN NS ns.evil.test.")}
	outer.Extra = []dns.RR{mustRR(t, "ns.evil.test. 86400 IN A 6.6.6.6")}

	targetSOA := mustRR(t, "example.net. 30 IN SOA ns.example.net. hostmaster.example.net. 1 30 30 30 30")
	var queryer middleware.Queryer = &dnameNODATATargetQueryer{soa: targetSOA}
	r := new(Resolver)
	r.queryer.Store(&queryer)

	var meta middleware.ResponseMeta
	ctx := middleware.WithResponseMeta(context.Background(), &meta)

	resp, err := r.answer(ctx, req, outer, nil, "example.com.")
	if err != nil {
		t.Fatalf("answer: %v", err)
	}

	if bad := outOfZoneOwners(resp.Ns, "example.com.", "example.net."); len(bad) > 0 {
		t.Errorf("authority section relays records from outside the queried zones:\n  %s",
			strings.Join(bad, "\n  "))
	}
	if bad := outOfZoneOwners(resp.Extra, "example.com.", "example.net."); len(bad) > 0 {
		t.Errorf("additional section relays records from outside the queried zones:\n  %s",
			strings.Join(bad, "\n  "))
	}

	// The target's NODATA proof is the one thing the authority section is
	// for here, and it has to survive.
	foundSOA := false
	for _, rr := range resp.Ns {
		if dns.IsDuplicate(rr, targetSOA) {
			foundSOA = true
		}
	}
	if !foundSOA {
		t.Errorf("target NODATA proof (SOA example.net.) missing from authority: %v", resp.Ns)
	}
}

// TestDNAMETargetNODATAPipelineDoesNotRelayOrCacheForeignRecords is the same
// history end to end: mock root -> unsigned example.com. (hostile) and
// unsigned example.net. (honest), resolver behind the cache middleware,
// DNSSEC validation off.
//
// The example.com. server answers `x.foo.example.com. A` with the DNAME and
// its synthesised CNAME, and stuffs `victim.net. NS ns.evil.test.` into the
// authority section and `ns.evil.test. A 6.6.6.6` into the additional
// section. `x.bar.example.net. A` is NODATA. Neither the first client (cache
// miss) nor the second (cache hit) may be handed the stuffed records.
func TestDNAMETargetNODATAPipelineDoesNotRelayOrCacheForeignRecords(t *testing.T) {
	var ignore int64

	softNeg := func(zone string) *dns.Msg {
		m := &dns.Msg{}
		m.Authoritative = true
		if zone == "." {
			m.Ns = []dns.RR{mustRR(t, ". 30 IN SOA a.root. hostmaster.root. 1 30 30 30 30")}
		} else {
			m.Ns = []dns.RR{mustRR(t, zone+" 30 IN SOA ns."+zone+" hostmaster."+zone+" 1 30 30 30 30")}
		}
		return m
	}

	evilAddr, stopEvil := startMockAuth(t, &ignore, func(q dns.Question) *dns.Msg {
		if q.Qtype == dns.TypeA && dns.CanonicalName(q.Name) == "x.foo.example.com." {
			m := &dns.Msg{}
			m.Authoritative = true
			m.Answer = []dns.RR{
				mustRR(t, "foo.example.com. 300 IN DNAME bar.example.net."),
				mustRR(t, "x.foo.example.com. 300 IN CNAME x.bar.example.net."),
			}
			m.Ns = []dns.RR{mustRR(t, "victim.net. 86400 IN NS ns.evil.test.")}
			m.Extra = []dns.RR{mustRR(t, "ns.evil.test. 86400 IN A 6.6.6.6")}
			return m
		}
		return softNeg("example.com.")
	})
	defer stopEvil()

	netAddr, stopNet := startMockAuth(t, &ignore, func(dns.Question) *dns.Msg {
		return softNeg("example.net.")
	})
	defer stopNet()

	rootAddr, stopRoot := startMockAuth(t, &ignore, func(q dns.Question) *dns.Msg {
		name := dns.CanonicalName(q.Name)
		if name == "." && q.Qtype == dns.TypeNS {
			m := &dns.Msg{}
			m.Authoritative = true
			m.Answer = []dns.RR{mustRR(t, ". 3600 IN NS a.root.")}
			return m
		}
		if q.Qtype == dns.TypeDS {
			return softNeg(".")
		}
		switch {
		case dns.IsSubDomain("example.com.", name):
			m := &dns.Msg{}
			m.Ns = []dns.RR{mustRR(t, "example.com. 3600 IN NS ns.example.com.")}
			m.Extra = []dns.RR{mustRR(t, "ns.example.com. 3600 IN A 192.0.2.21")}
			return m
		case dns.IsSubDomain("example.net.", name):
			m := &dns.Msg{}
			m.Ns = []dns.RR{mustRR(t, "example.net. 3600 IN NS ns.example.net.")}
			m.Extra = []dns.RR{mustRR(t, "ns.example.net. 3600 IN A 192.0.2.22")}
			return m
		}
		return softNeg(".")
	})
	defer stopRoot()

	remap := map[string]string{
		"192.0.2.21:53": evilAddr,
		"192.0.2.22:53": netAddr,
	}
	mapper := func(addr string) string {
		if to, ok := remap[addr]; ok {
			return to
		}
		return addr
	}

	base := makeTestConfig()
	cfg := *base
	cfg.RootServers = []string{rootAddr}
	cfg.Root6Servers = nil
	cfg.DNSSEC = "off"
	cfg.CacheSize = 1024
	cfg.Prefetch = 0
	cfg.RateLimit = 0

	h := New(&cfg)
	h.resolver.resolveTarget.Store(&mapper)

	cm := cachemw.New(&cfg)
	defer cm.Stop()
	var subPipeline middleware.Queryer = &chainQueryer{handlers: []middleware.Handler{cm, h}}
	cm.SetPrefetchQueryer(subPipeline)
	cm.SetQueryer(subPipeline)
	h.resolver.queryer.Store(&subPipeline)

	ask := func(label string) *dns.Msg {
		t.Helper()
		req := new(dns.Msg)
		req.SetQuestion("x.foo.example.com.", dns.TypeA)
		w := mock.NewWriter("udp", "127.0.0.1:0")
		ch := middleware.NewChain([]middleware.Handler{cm, h})
		ch.Reset(w, req)
		ch.Next(context.Background())
		if !w.Written() {
			t.Fatalf("%s: no response written", label)
		}
		return w.Msg()
	}

	check := func(label string, resp *dns.Msg) {
		t.Helper()
		if resp.Rcode != dns.RcodeSuccess {
			t.Fatalf("%s: rcode = %s, want NOERROR", label, dns.RcodeToString[resp.Rcode])
		}
		sawDNAME := false
		for _, rr := range resp.Answer {
			if rr.Header().Rrtype == dns.TypeDNAME {
				sawDNAME = true
			}
		}
		if !sawDNAME {
			t.Fatalf("%s: the DNAME redirect was not exercised, answer = %v", label, resp.Answer)
		}
		if bad := outOfZoneOwners(resp.Ns, "example.com.", "example.net."); len(bad) > 0 {
			t.Errorf("%s: authority section hands the client records from outside the queried zones:\n  %s",
				label, strings.Join(bad, "\n  "))
		}
		if bad := outOfZoneOwners(resp.Extra, "example.com.", "example.net."); len(bad) > 0 {
			t.Errorf("%s: additional section hands the client records from outside the queried zones:\n  %s",
				label, strings.Join(bad, "\n  "))
		}
	}

	check("first client (cache miss)", ask("miss"))

	probe := new(dns.Msg)
	probe.SetQuestion("x.foo.example.com.", dns.TypeA)
	cacheStore, ok := cm.Store().(*cachemw.Store)
	if !ok {
		t.Fatal("cache StoreProvider did not return *cache.Store")
	}
	if _, ok := cacheStore.Lookup(probe); !ok {
		t.Fatal("the response was not cached; the second ask would not be a cache hit")
	}

	check("second client (cache hit)", ask("hit"))
}
