#!/bin/bash
# Applies each seeded breaking change to a scratch worktree of /repo and runs the property's own quick check against it
# (-all: all 20 checks). A change is DETECTED when its own check reports a violation.
# Usage: tools/run_seeded.sh [-all] [glob of seeded ids, default '*']
ALL=0; if [ "$1" = "-all" ]; then ALL=1; shift; fi
G=${1:-*}
W=/tmp/sd_repo_$$
git -C /repo worktree add -q --detach $W HEAD || exit 2
mkdir -p /tmp/sd_ev_$$/evidence; ln -sfn /verif/checker /tmp/sd_ev_$$/checker; cp /verif/known-findings.txt /tmp/sd_ev_$$/
for d in $(ls -d /verif/seeded/$G | sort -V); do
  id=$(basename $d); own=${id%%-*}
  if ! git -C $W apply --check $d/patch.diff 2>/dev/null; then echo "SEEDED $id does-not-apply"; continue; fi
  git -C $W apply $d/patch.diff
  if [ $ALL = 1 ]; then
    out=$(/verif/bin/sdnsverif -repo $W -sweep 2>&1 | grep 'key=\|SWEEP')
  else
    out=$(/verif/bin/sdnsverif -verif /tmp/sd_ev_$$ -repo $W -nomutants -property $own 2>&1 | grep 'key=' | sed "s/^ */$own: /")
  fi
  git -C $W checkout -- . ; git -C $W clean -fdq
  if echo "$out" | grep -q "^$own:"; then echo "SEEDED $id DETECTED"; else echo "SEEDED $id MISSED"; fi
  echo "$out" | sort | uniq | head -8 | sed 's/^/    /'
done
git -C /repo worktree remove --force $W; rm -rf /tmp/sd_ev_$$
