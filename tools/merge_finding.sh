#!/bin/bash
# Merges one reviewed finding: rule/mutant files from a builder's OUT dir into /verif/checker, the accepted fix into /repo
# as one "fix:" commit. Usage: tools/merge_finding.sh <builder OUT/<id> dir> <property Cnn> <commit message file>
set -u
O=$1; P=$2; MSG=$3
export PATH=/opt/veriftools/go1.26.8/bin:$PATH GOTOOLCHAIN=local GOFLAGS=-mod=mod GOPROXY=off GOSUMDB=off; unset GOWORK
cp $O/rules_f_*.go $O/mutants_f_*.go /verif/checker/ 2>/dev/null
if [ -d $O/existing ]; then for f in $O/existing/*.go; do [ -f "$f" ] && /verif/tools/merge_existing.sh ${BASE:-HEAD} $f; done; fi
cd /repo || exit 2
if [ -f $O/fix.diff ]; then
  git apply $O/fix.diff || git apply -3 $O/fix.diff || { echo "MERGE: fix does not apply"; exit 1; }
  gofmt -l $(git diff --name-only) 2>/dev/null
  go build ./... || { echo "MERGE: build failed"; exit 1; }
  pk=$(git diff --name-only | xargs -n1 dirname | sort -u | sed 's#^#./#' | tr '\n' ' ')
  go test -vet=off -count=1 $pk 2>&1 | grep -v "^ok\|no test files" | head -8
  git add -A && git commit -q -F $MSG && echo "MERGE: committed $(git log --oneline | head -1)"
fi
cd /verif/checker && go build -o ../bin/sdnsverif . || { echo "MERGE: checker build failed"; exit 1; }
cd /verif && ./bin/sdnsverif -property $P -nomutants 2>&1 | grep "key=\|^property"
for m in $(grep -ho 'ID: "[^"]*"' $O/mutants_f_*.go 2>/dev/null | sed 's/ID: "//;s/"//'); do echo -n "  mutant $m: "; ./bin/sdnsverif -property $P -mutant $m 2>&1 | grep MUTANT-RESULT | cut -c1-160; done
