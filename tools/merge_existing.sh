#!/bin/bash
# 3-way merges a builder's changed copy of an existing checker file into /verif/checker.
# Usage: tools/merge_existing.sh <base commit> <builder file> ; the file name decides the target.
base=$1; f=$2; n=$(basename $f)
git -C /verif show $base:checker/$n > /tmp/merge_base_$n || exit 2
if cmp -s /tmp/merge_base_$n $f; then echo "MERGE-EXISTING $n: unchanged by builder"; exit 0; fi
git merge-file -p /verif/checker/$n /tmp/merge_base_$n $f > /tmp/merge_out_$n; rc=$?
if [ $rc -ne 0 ]; then echo "MERGE-EXISTING $n: CONFLICT ($rc) — see /tmp/merge_out_$n"; exit 1; fi
cp /tmp/merge_out_$n /verif/checker/$n; echo "MERGE-EXISTING $n: merged"
