#!/bin/bash
# Confirms one seeded change in a scratch worktree: patch applies + builds, the demo FAILS with it and PASSES without it,
# the existing tests of the touched packages still pass with it. Usage: tools/verify_seeded.sh C07
set -u
id=$1
S=/verif/seeded/$id
export PATH=/opt/veriftools/go1.26.8/bin:$PATH GOTOOLCHAIN=local GOFLAGS=-mod=mod GOPROXY=off GOSUMDB=off
unset GOWORK
wt=/tmp/vs_$id
git -C /repo worktree remove --force $wt >/dev/null 2>&1
git -C /repo worktree add -q $wt HEAD || exit 2
cd $wt
res() { echo "RESULT $id $*"; }
git apply $S/patch.diff || { res patch-does-not-apply; cd /; git -C /repo worktree remove --force $wt; exit 1; }
go build ./... || { res build-fails; cd /; git -C /repo worktree remove --force $wt; exit 1; }
pkgs=$(git diff --name-only | xargs -n1 dirname | sort -u | sed 's#^#./#')
demopkgs=$(cd $S/demo && find . -name '*_test.go' | xargs -n1 dirname | sort -u)
# existing tests with the change (demo not yet present)
go test -vet=off -count=1 -timeout 20m $pkgs $demopkgs > $wt/.existing.log 2>&1; ex=$?
# demo with the change
(cd $S/demo && find . -name '*_test.go') | while read f; do cp $S/demo/$f $wt/$f; done
names=$(grep -h -o '^func Test[A-Za-z0-9_]*' $(cd $S/demo && find . -name '*_test.go' | sed "s#^#$S/demo/#") | sed 's/func //' | paste -sd'|')
go test -vet=off -count=1 -timeout 20m -run "^($names)\$" $demopkgs > $wt/.demo_with.log 2>&1; dw=$?
git apply -R $S/patch.diff
go test -vet=off -count=1 -timeout 20m -run "^($names)\$" $demopkgs > $wt/.demo_without.log 2>&1; dwo=$?
mkdir -p $S/logs
cp $wt/.existing.log $S/logs/existing_tests_with_change.log; cp $wt/.demo_with.log $S/logs/demo_with_change.log; cp $wt/.demo_without.log $S/logs/demo_without_change.log
res "existing_with_change_exit=$ex demo_with_change_exit=$dw demo_without_change_exit=$dwo tests=$names"
cd /; git -C /repo worktree remove --force $wt
