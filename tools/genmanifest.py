#!/usr/bin/env python3
"""Regenerates /verif/MANIFEST.json from tools/manifest_props.json (per-property text)."""
import json, os
here = os.path.dirname(os.path.abspath(__file__))
root = os.path.dirname(here)
props = json.load(open(os.path.join(here, "manifest_props.json")))
ENV = "PATH=/opt/veriftools/go1.26.8/bin:$PATH GOTOOLCHAIN=local GOFLAGS=-mod=mod GOPROXY=off GOSUMDB=off GOWORK=off"
checks, na = [], []
for pid in sorted(props):
    p = props[pid]
    if p.get("not_applicable"):
        na.append({"property_id": pid, "reason": p["not_applicable"]})
        continue
    checks.append({
        "property_id": pid,
        "quick_cmd": f"{ENV} ./bin/sdnsverif -property {pid} -tier quick",
        "thorough_cmd": f"{ENV} ./bin/sdnsverif -property {pid} -tier thorough",
        "evidence_file": f"/verif/evidence/{pid}.json",
        "replay_cmd_template": f"{ENV} ./bin/sdnsverif -property {pid} -tier quick -v  # evidence written to {{path}}",
        "engine": "sdnsverif",
        "level_claimed": {"category": "other", "text": p["text"], "design_ref": p.get("design_ref", "DESIGN.md §4 " + pid)},
        "level_note": p["note"],
        "technique": p["technique"],
    })
m = {
    "version": 1,
    "setup_cmd": f"cd /verif/checker && {ENV} go build -o ../bin/sdnsverif .",
    "hooks": {"guard": "verif", "enable": "none needed: the checks are static and build nothing from /repo; no hook was added to semihalev/sdns",
              "baseline_off_cmd": json.load(open("/root/.vp/BASELINE.json"))["cmd"], "source_commits": [], "add_only": True},
    "engines": [{"name": "sdnsverif", "path": "/verif/checker", "serves_properties": [c["property_id"] for c in checks],
                 "kind_free_text": "repository-specific static analyser over go/packages + go/ssa: who-may (E1), must-cross path rule (E2), exit pairing (E3), value origin (E4), lockset (E6), table agreement (E7), guard truth tables (E8), field coverage (E9), min-fold/constant/interval rules (E11-E13); positive controls on every run; overlay mutation catalogue in the thorough tier"}],
    "checks": checks,
    "not_applicable": na,
    "notes": "Static analysis only. Every check decides named structural clauses (necessary conditions) of its property from the current /repo source and says which clauses it does not decide (evidence coverage.not_decided). See DESIGN.md.",
}
json.dump(m, open(os.path.join(root, "MANIFEST.json"), "w"), indent=1)
print("checks:", len(checks), "not_applicable:", len(na))
