#!/bin/bash
# Applies each behaviour-preserving refactoring diff to /repo, runs all 20 quick checks (5 at a time), reverts.
# Any report is a FALSE ALARM of the reporting check. Usage: tools/run_refactors.sh [dir with C*/R*.diff]
D=${1:-/verif/refactors}
mkdir -p /tmp/rf_ev/evidence; ln -sfn /verif/checker /tmp/rf_ev/checker; cp /verif/known-findings.txt /tmp/rf_ev/
for diff in $(ls $D/C*/R*.diff | sort); do
  id=$(basename $(dirname $diff)); r=$(basename $diff .diff)
  if ! git -C /repo apply --check $diff 2>/dev/null; then echo "REFACTOR $id/$r does-not-apply"; continue; fi
  git -C /repo apply $diff
  out=$(seq -w 1 20 | xargs -P 5 -I{} sh -c '/verif/bin/sdnsverif -verif /tmp/rf_ev -property C{} 2>&1 | grep "key=" | sed "s/^ */C{}: /"')
  git -C /repo checkout -- .
  if [ -z "$out" ]; then echo "REFACTOR $id/$r silent"; else echo "REFACTOR $id/$r ALARM"; echo "$out" | sort | uniq | head -12; fi
done
