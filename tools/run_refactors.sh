#!/bin/bash
# Applies each behaviour-preserving refactoring diff to a scratch worktree of /repo (so concurrent runs on /repo are
# not disturbed), runs the quick checks against it (5 at a time), reverts.
# Any report is a FALSE ALARM of the reporting check.
# Usage: tools/run_refactors.sh [-own] [dir with C*/R*.diff] [glob of diffs, default R*.diff]
#   -own : run only the refactoring's own property check (fast first pass)
OWN=0; if [ "$1" = "-own" ]; then OWN=1; shift; fi
D=${1:-/verif/refactors}; G=${2:-R*.diff}
W=/tmp/rf_repo_$$
git -C /repo worktree add -q --detach $W HEAD || exit 2
# carry over uncommitted state of /repo (normally none)
mkdir -p /tmp/rf_ev_$$/evidence; ln -sfn /verif/checker /tmp/rf_ev_$$/checker; cp /verif/known-findings.txt /tmp/rf_ev_$$/
for diff in $(ls $D/C*/$G | sort -V); do
  id=$(basename $(dirname $diff)); r=$(basename $diff .diff)
  if ! git -C $W apply --check $diff 2>/dev/null; then echo "REFACTOR $id/$r does-not-apply"; continue; fi
  git -C $W apply $diff
  if [ $OWN = 1 ]; then
    props=${id#C}; props=${props%%-*}
    out=$(/verif/bin/sdnsverif -verif /tmp/rf_ev_$$ -repo $W -nomutants -property C$props 2>&1 | grep 'key=' | sed "s/^ */C$props: /")
  else
    # one load, the rules of all 20 properties (same rule code as the registered checks; no evidence/controls)
    out=$(/verif/bin/sdnsverif -repo $W -sweep 2>&1 | grep 'key=\|SWEEP')
  fi
  git -C $W checkout -- . ; git -C $W clean -fdq
  if [ -z "$out" ]; then echo "REFACTOR $id/$r silent"; else echo "REFACTOR $id/$r ALARM"; echo "$out" | sort | uniq | head -12; fi
done
git -C /repo worktree remove --force $W; rm -rf /tmp/rf_ev_$$
