#!/usr/bin/env python3
"""Writes /verif/seeded/<id>/meta.json from the table below + the verification logs, and (with --run) runs the
registered quick check of each property against each seeded change applied to /repo (undone straight afterwards)."""
import json, os, subprocess, sys, re
S = "/verif/seeded"
T = {
 "C01": ("middleware/resolver/resolver.go Resolver.answer", "the out-of-zone authority filter (FilterRRsToZone) runs after the wildcard next-closer check instead of before it: unsigned NSEC records owned outside the signer zone take part in the proof, a replayed wildcard RRSIG over a name that really exists is accepted and served with AD=1", "a signed zone publishing a wildcard plus an on-path tamper that replays the wildcard RRset+RRSIG over an existing name and adds an unsigned foreign NSEC spanning the next-closer name"),
 "C02": ("middleware/resolver/dnssec/aggressive_negative.go closestEncloserFromAggressiveNSEC", "the aggressive-NSEC closest encloser is derived from the covering NSEC's owner only (its next name is ignored): a name that exists through a wildcard under an empty non-terminal is synthesised as NXDOMAIN with AD", "genuine NSECs of a zone with a wildcard under an ENT in the aggressive cache, then a query whose first label sorts before '*'"),
 "C03": ("middleware/cache/entry_wire_chase.go Cache.collectWireChase", "the per-hop verifier entryMatchesWireQuestion is replaced by an inline qtype/qclass/name comparison: the CD partition and ECS scope of a chase hop are no longer verified", "a wire-born query hitting a bare CNAME entry whose target's 64-bit key collides with an entry of another CD partition / scope (forged key)"),
 "C04": ("middleware/cache/entry_wire_chase.go collectWireChase", "the per-hop remaining TTL is hoisted out of the loop: every segment of a wire-composed CNAME reply carries the alias entry's remaining TTL (a target with 8 s left is shown with 299 s)", "wire fast path, alias-only hit with a fully cached chain whose later hop has less life than the alias"),
 "C05": ("middleware/cache/entry_wire_chase.go composeWireChase", "the composed reply's AD comes from the alias hop only instead of the AND over every hop: ServeRaw answers AD=1 over an unvalidated target while ServeMsg answers AD=0", "alias admitted while every hop validated, then only the target entry replaced by an insecure answer; DO/AD client with CD=0 on the wire path"),
 "C06": ("middleware/cache/entry_wire.go prepareWireServe", "the entry's has-DNSSEC flag is computed from the answer section only: a cached signed negative answer (RRSIG/NSEC in authority) is served unstripped to a DO=0 client on the byte path", "cache hit on a signed negative answer, DO=0 or no-EDNS client, wire path"),
 "C07": ("middleware/resolver/resolver.go Resolver.checkGlueRR", "the label-aligned bailiwick test CompareSuffix(name, zone) is replaced by a hoisted strings.HasSuffix: glue for ns1.bank.com. is accepted from zone ank.com. and cached under the foreign host name", "an attacker zone whose name is a non-label-aligned string suffix of the victim NS host, then a later query for a zone delegated glue-lessly to that host"),
 "C08": ("middleware/resolver/resolver.go Resolver.processDelegation", "the DS deadline is anchored at time.Now() after validation instead of the observation instant: the lease becomes observedAt + validation latency + DS TTL", "signed delegation with DS TTL < NS TTL, noticeable validateDelegation latency, parent withdrawal and a fresh query inside the inflated window"),
 "C09": ("middleware/resolver/auto_trust_anchor.go Resolver.AutoTA", "the tombstone-precedence sweep applies only to entries seeded from config; entries loaded from the state file are skipped: after a crash between the tombstone write and the state write a revoked key is published again", "accepted revocation, crash (or state-write failure) exactly between writeTombstones and writeToTAFile, then a restart / next refresh"),
 "C10": ("middleware/edns/edns.go (*EDNS).serveWire deferred cleanup", "the pooled/job-owned edns writer is no longer zeroed as a whole (*rw = ResponseWriter{}): cookieRaw/hasCookieRaw/cookie survive, a later client's reply carries the previous client's cookie", "client A sends a cookie-bearing query, the slab/wrapper is reused for client B whose query has EDNS but no COOKIE"),
 "C11": ("middleware/cache/cache.go (*Cache).ServeDNS", "the leader's defer DoneGeneration is moved into the writer-restore defer at the bottom: the early return for a leader whose context is already expired never completes the generation, later clients of the same name wait out their timeout", "a cache miss that wins dedup leadership while its context is already expired or cancelled"),
 "C12": ("middleware/resolver/resolver.go processDelegation (qname-minimisation restart)", "the restart resolveState literal loses work: rs.work: after that restart outbound exchanges are never debited (budget 8 → 28 datagrams)", "minimisation on + enforce mode + an authority answering empty NOERROR to ≥2 minimised names then an on-path referral with fewer labels"),
 "C13": ("middleware/cache/failure_cache.go FailureCache.LookupWire", "the exact-question match is factored into a helper that drops now.Before(entry.retryAfter): expired failure entries (kept as streak history) are served as hits on the wire route, SERVFAIL persists past the backoff ceiling", "a question failure whose backoff expired, then a wire-born query staying on the byte path"),
 "C14": ("middleware/resolver/dnssec/rsa.go rsaVerifyPKCS1v15", "the recovered encoding is compared right-aligned against a suffix of the expected EM instead of at full modulus width: the 00 01 FF… frame goes unchecked, an all-zero signature verifies", "a DNSKEY with RSA exponent > 2^31-1 (raw modexp path) and a zero / frame-stripped signature"),
 "C15": ("internal/wire/pack.go TryPack", "defer state.release() right after the pool Get is replaced by a bare Put on the packInto failure path: a failed pack returns its state with the compression dictionary unscrubbed, the next pack emits pointers meant for another message", "a message passing admission but failing mid-pack (HTTPS with empty ALPN id), then a compressible message drawing the same pooled state"),
 "C16": ("internal/cache/uint64_unsafe_map.go backwardShiftDelete", "the wrapped-interval test i < k becomes i <= k: deleting the head of a probe chain that wraps the array end leaves a ghost entry (Get misses, Len counts it)", "two keys whose ideal slot is the last slot of a segment table, the first-inserted one deleted first"),
 "C17": ("middleware/accesslist/accesslist.go New", "the open default is installed when the compiled set is empty (after parsing) instead of when the configured list is empty: a list made only of malformed entries opens the resolver", "every configured entry unparsable"),
 "C18": ("middleware/blocklist/blocklist.go (*BlockList).Set", "Set returns true without snapshot/persist when the entry count is unchanged: an API Set of a name already in memory (from a remote list) leaves the local file stale", "name reaches memory by a route that does not write 'local', then API Set of that name, then reload"),
 "C19": ("middleware/edns/edns.go (*EDNS).serveWire", "MarkClientECS only when the policy Allows the client: a wire-born ECS query that policy strips is treated as an ordinary tree and consumes/creates shared denials", "wire ingress + ECS option + forwarding disabled or client outside client_networks + shared denial state"),
 "C20": ("middleware/dns64/dns64.go isDNSSECFailure", "the loop over all OPT options is replaced by dnsutil.GetEDE (first EDE only): a SERVFAIL whose DNSSEC EDE is not the first EDE option is synthesised over", "a downstream SERVFAIL with ≥2 EDE options and the DNSSEC-class code in a non-first position"),
}
def verification(i):
    out = {}
    for nm in ("existing_tests_with_change", "demo_with_change", "demo_without_change"):
        p = f"{S}/{i}/logs/{nm}.log"
        if os.path.exists(p):
            txt = open(p, errors="replace").read()
            fails = re.findall(r"^--- FAIL: (\S+)", txt, re.M)
            oks = len(re.findall(r"^ok\s", txt, re.M))
            out[nm] = {"packages_ok": oks, "failed_tests": fails[:10]}
    return out
def run_checks(i):
    env = dict(os.environ)
    r = subprocess.run(["git", "-C", "/repo", "apply", f"{S}/{i}/patch.diff"], capture_output=True, text=True)
    if r.returncode != 0:
        return {"error": "patch does not apply: " + r.stderr[:200]}
    try:
        res = {}
        for prop in sorted(T):
            if "--all" not in sys.argv and prop != i:
                continue
            p = subprocess.run(["/verif/bin/sdnsverif", "-property", prop, "-verif", "/tmp/seeded_ev"], capture_output=True, text=True)
            keys = re.findall(r"^\s+key=(.*)$", p.stdout, re.M)
            res[prop] = {"exit": p.returncode, "reported": sorted(set(keys))[:12]}
        return res
    finally:
        subprocess.run(["git", "-C", "/repo", "checkout", "--", "."])
os.makedirs("/tmp/seeded_ev/evidence", exist_ok=True)
if not os.path.exists("/tmp/seeded_ev/checker"):
    os.symlink("/verif/checker", "/tmp/seeded_ev/checker")
if os.path.exists("/verif/known-findings.txt"):
    subprocess.run(["cp", "/verif/known-findings.txt", "/tmp/seeded_ev/known-findings.txt"])
for i, (where, breaks, needs) in sorted(T.items()):
    d = f"{S}/{i}"
    if not os.path.isdir(d):
        continue
    mp = f"{d}/meta.json"
    meta = json.load(open(mp)) if os.path.exists(mp) else {}
    demos = []
    for root, _, fs in os.walk(f"{d}/demo"):
        for f in fs:
            demos.append(os.path.relpath(os.path.join(root, f), f"{d}/demo"))
    meta.update({"property": i, "changed": where, "breaks": breaks, "needs_to_manifest": needs,
                 "demo_files": sorted(demos), "author": "independent sub-agent given only the property text and a scratch worktree",
                 "confirmed_by": "tools/verify_seeded.sh in a scratch worktree of /repo HEAD: patch applies and builds; existing tests of the touched packages with the change; demo with the change (must FAIL); demo without it (must PASS)",
                 "verification": verification(i)})
    if "--run" in sys.argv:
        meta["checks_run_against_it"] = run_checks(i)
        own = meta["checks_run_against_it"].get(i, {})
        meta["detected_by_own_property_check"] = bool(own.get("exit") == 1)
        print(i, "detected" if meta["detected_by_own_property_check"] else "MISSED", own.get("reported", [])[:3])
    json.dump(meta, open(mp, "w"), indent=1)
