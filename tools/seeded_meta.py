#!/usr/bin/env python3
"""Writes /verif/seeded/<id>/meta.json from the table below + the verification logs, and (with --run) runs the
registered quick check of each property against each seeded change applied to /repo (undone straight afterwards)."""
import json, os, subprocess, sys, re
S = "/verif/seeded"
T = {
 "C01": ("middleware/resolver/resolver.go Resolver.answer", "the out-of-zone authority filter (FilterRRsToZone) runs after the wildcard next-closer check instead of before it: unsigned NSEC records owned outside the signer zone take part in the proof, a replayed wildcard RRSIG over a name that really exists is accepted and served with AD=1", "a signed zone publishing a wildcard plus an on-path tamper that replays the wildcard RRset+RRSIG over an existing name and adds an unsigned foreign NSEC spanning the next-closer name"),
 "C02": ("middleware/resolver/dnssec/aggressive_negative.go closestEncloserFromAggressiveNSEC", "the aggressive-NSEC closest encloser is derived from the covering NSEC's owner only (its next name is ignored): a name that exists through a wildcard under an empty non-terminal is synthesised as NXDOMAIN with AD", "genuine NSECs of a zone with a wildcard under an ENT in the aggressive cache, then a query whose first label sorts before '*'"),
 "C03": ("middleware/cache/entry_wire_chase.go Cache.collectWireChase", "the per-hop verifier entryMatchesWireQuestion is replaced by an inline qtype/qclass/name comparison: the CD partition and ECS scope of a chase hop are no longer verified", "a wire-born query hitting a bare CNAME entry whose target's 64-bit key collides with an entry of another CD partition / scope (forged key)"),
 "C04": ("middleware/cache/entry_wire_chase.go collectWireChase", "the per-hop remaining TTL is hoisted out of the loop: every segment of a wire-composed CNAME reply carries the alias entry's remaining TTL (a target with 8 s left is shown with 299 s)", "wire fast path, alias-only hit with a fully cached chain whose later hop has less life than the alias"),
 "C05": ("middleware/cache/entry_wire_chase.go composeWireChase", "the composed reply's AD comes from the alias hop only instead of the AND over every hop: ServeRaw answers AD=1 over an unvalidated target while ServeMsg answers AD=0", "alias admitted while every hop validated, then only the target entry replaced by an insecure answer; DO/AD client with CD=0 on the wire path"),
 "C06": ("middleware/cache/entry_wire.go prepareWireServe", "the entry's has-DNSSEC flag is computed from the answer section only: a cached signed negative answer (RRSIG/NSEC in authority) is served unstripped to a DO=0 client on the byte path", "cache hit on a signed negative answer, DO=0 or no-EDNS client, wire path"),
 "C07": ("middleware/resolver/resolver.go Resolver.checkGlueRR", "the label-aligned bailiwick test CompareSuffix(name, zone) is replaced by a hoisted strings.HasSuffix: glue for ns1.bank.com. is accepted from zone ank.com. and cached under the foreign host name", "an attacker zone whose name is a non-label-aligned string suffix of the victim NS host, then a later query for a zone delegated glue-lessly to that host"),
 "C08": ("middleware/resolver/resolver.go Resolver.processDelegation", "the DS deadline is anchored at time.Now() after validation instead of the observation instant: the lease becomes observedAt + validation latency + DS TTL", "signed delegation with DS TTL < NS TTL, noticeable validateDelegation latency, parent withdrawal and a fresh query inside the inflated window"),
 "C09": ("middleware/resolver/auto_trust_anchor.go Resolver.AutoTA", "the tombstone-precedence sweep applies only to entries seeded from config; entries loaded from the state file are skipped: after a crash between the tombstone write and the state write a revoked key is published again", "accepted revocation, crash (or state-write failure) exactly between writeTombstones and writeToTAFile, then a restart / next refresh"),
 "C10": ("middleware/edns/edns.go (*EDNS).serveWire deferred cleanup", "the pooled/job-owned edns writer is no longer zeroed as a whole (*rw = ResponseWriter{}): cookieRaw/hasCookieRaw/cookie survive, a later client's reply carries the previous client's cookie", "client A sends a cookie-bearing query, the slab/wrapper is reused for client B whose query has EDNS but no COOKIE"),
 "C11": ("middleware/cache/cache.go (*Cache).ServeDNS", "the leader's defer DoneGeneration is moved into the writer-restore defer at the bottom: the early return for a leader whose context is already expired never completes the generation, later clients of the same name wait out their timeout", "a cache miss that wins dedup leadership while its context is already expired or cancelled"),
 "C12": ("middleware/resolver/resolver.go processDelegation (qname-minimisation restart)", "the restart resolveState literal loses work: rs.work: after that restart outbound exchanges are never debited (budget 8 → 28 datagrams)", "minimisation on + enforce mode + an authority answering empty NOERROR to ≥2 minimised names then an on-path referral with fewer labels"),
 "C13": ("middleware/cache/failure_cache.go FailureCache.LookupWire", "the exact-question match is factored into a helper that drops now.Before(entry.retryAfter): expired failure entries (kept as streak history) are served as hits on the wire route, SERVFAIL persists past the backoff ceiling", "a question failure whose backoff expired, then a wire-born query staying on the byte path"),
 "C14": ("middleware/resolver/dnssec/rsa.go rsaVerifyPKCS1v15", "the recovered encoding is compared right-aligned against a suffix of the expected EM instead of at full modulus width: the 00 01 FF… frame goes unchecked, an all-zero signature verifies", "a DNSKEY with RSA exponent > 2^31-1 (raw modexp path) and a zero / frame-stripped signature"),
 "C15": ("internal/wire/pack.go TryPack", "defer state.release() right after the pool Get is replaced by a bare Put on the packInto failure path: a failed pack returns its state with the compression dictionary unscrubbed, the next pack emits pointers meant for another message", "a message passing admission but failing mid-pack (HTTPS with empty ALPN id), then a compressible message drawing the same pooled state"),
 "C16": ("internal/cache/uint64_unsafe_map.go backwardShiftDelete", "the wrapped-interval test i < k becomes i <= k: deleting the head of a probe chain that wraps the array end leaves a ghost entry (Get misses, Len counts it)", "two keys whose ideal slot is the last slot of a segment table, the first-inserted one deleted first"),
 "C17": ("middleware/accesslist/accesslist.go New", "the open default is installed when the compiled set is empty (after parsing) instead of when the configured list is empty: a list made only of malformed entries opens the resolver", "every configured entry unparsable"),
 "C18": ("middleware/blocklist/blocklist.go (*BlockList).Set", "Set returns true without snapshot/persist when the entry count is unchanged: an API Set of a name already in memory (from a remote list) leaves the local file stale", "name reaches memory by a route that does not write 'local', then API Set of that name, then reload"),
 "C19": ("middleware/edns/edns.go (*EDNS).serveWire", "MarkClientECS only when the policy Allows the client: a wire-born ECS query that policy strips is treated as an ordinary tree and consumes/creates shared denials", "wire ingress + ECS option + forwarding disabled or client outside client_networks + shared denial state"),
 "C20": ("middleware/dns64/dns64.go isDNSSECFailure", "the loop over all OPT options is replaced by dnsutil.GetEDE (first EDE only): a SERVFAIL whose DNSSEC EDE is not the first EDE option is synthesised over", "a downstream SERVFAIL with ≥2 EDE options and the DNSSEC-class code in a non-first position"),
}
def verification(i):
    out = {}
    for nm in ("existing_tests_with_change", "demo_with_change", "demo_without_change"):
        p = f"{S}/{i}/logs/{nm}.log"
        if os.path.exists(p):
            txt = open(p, errors="replace").read()
            fails = re.findall(r"^--- FAIL: (\S+)", txt, re.M)
            oks = len(re.findall(r"^ok\s", txt, re.M))
            out[nm] = {"packages_ok": oks, "failed_tests": fails[:10]}
    return out
WT = "/tmp/seeded_meta_wt"
def run_checks(i):
    """applies the change to a scratch worktree (so concurrent runs on /repo are not disturbed) and runs the checks against it"""
    if not os.path.isdir(WT):
        subprocess.run(["git", "-C", "/repo", "worktree", "add", "-q", "--detach", WT, "HEAD"], check=True)
    r = subprocess.run(["git", "-C", WT, "apply", f"{S}/{i}/patch.diff"], capture_output=True, text=True)
    if r.returncode != 0:
        return {"error": "patch does not apply: " + r.stderr[:200]}
    try:
        res = {}
        own = i.split("-")[0]
        for prop in sorted({k.split("-")[0] for k in T}):
            if "--all" not in sys.argv and prop != own:
                continue
            p = subprocess.run(["/verif/bin/sdnsverif", "-property", prop, "-verif", "/tmp/seeded_ev", "-repo", WT, "-nomutants"], capture_output=True, text=True)
            keys = re.findall(r"^\s+key=(.*)$", p.stdout, re.M)
            res[prop] = {"exit": p.returncode, "reported": sorted(set(keys))[:12]}
        return res
    finally:
        subprocess.run(["git", "-C", WT, "checkout", "--", "."])
        subprocess.run(["git", "-C", WT, "clean", "-fdq"])
os.makedirs("/tmp/seeded_ev/evidence", exist_ok=True)
if not os.path.exists("/tmp/seeded_ev/checker"):
    os.symlink("/verif/checker", "/tmp/seeded_ev/checker")
if os.path.exists("/verif/known-findings.txt"):
    subprocess.run(["cp", "/verif/known-findings.txt", "/tmp/seeded_ev/known-findings.txt"])
W2 = {
 "C01-w2A": ("middleware/cache/entry_wire_chase.go composeWireChase", "the per-hop AD merge is folded into the 'hop carries DNSSEC records' branch: a validated alias whose target is an insecure-zone entry (AD=0, no signatures) is answered AD=1", "wire-born DO=1 query, exact hit on an incomplete alias, all hops cached, a later hop AD=0 without signatures"),
 "C01-w2B": ("middleware/resolver/dnssec/verify.go verifyRRSIGWithWork", "the DNAMEs collected for the 'synthesised CNAME needs no RRSIG' exemption are no longer restricted to the signer zone: a forged out-of-zone DNAME in the authority section vouches for an unsigned CNAME (NOERROR, AD=1)", "crafted upstream reply: unsigned CNAME equal to the DNAME substitution + ancestor DNAME above the apex + one genuinely signed RRset"),
 "C02-w2A": ("middleware/cache/prefetch_queue.go processPrefetch", "negative.Aggressive dropped from the prefetch admission guard: a subtree cut is published for a proof the RFC 8198 classifier refused", "background refresh whose CAS succeeds returning a validated NXDOMAIN the strict classifier refused, then a query in that subtree"),
 "C02-w2B": ("middleware/resolver/dnssec/aggressive_negative.go closestEncloserFromAggressiveNSEC", "closest encloser from the covering owner only (same mechanism as wave 1)", "wildcard under an ENT, label sorting before '*'"),
 "C03-w2A": ("middleware/cache/entry_wire_chase.go collectWireChase", "hop check inlined as name/type/class only (same mechanism as wave 1)", "forged key collision on the chase hop"),
 "C03-w2B": ("middleware/cache/cache.go serveCompositeFromWire", "the `if !cd` gate around LookupNXDomainCutWire removed: a wire-born CD=1 query is answered NXDOMAIN from a cut built under CD=0", "cached cut over an ancestor, wire-born RD=1 CD=1 query without ECS, no exact CD=1 entry"),
 "C04-w2A": ("middleware/cache/cache.go additionalAnswer", "lineage.inherit() removed in the branch adopting a chased target's NXDOMAIN: the alias is re-cached with the CNAME's TTL and no cut", "Msg-path alias chase whose target denial is a bare NXDOMAIN with less life than the CNAME"),
 "C04-w2B": ("internal/dnsutil/cache_ttl.go CalculateCacheTTL", "authority-section loop skipped for positive answers: authority RRSIG expiry no longer bounds the entry", "positive answer whose authority RRSIG expires before every TTL"),
 "C05-w2A": ("middleware/edns/edns.go serveWire", "the max(…,512) floor of the UDP size lost on the wire branch only: strict path truncates where the decoded path answers", "OPT UDP size 0–511 and a reply between that and 512 bytes"),
 "C05-w2B": ("middleware/request.go parseWireOPT", "ECS scope bound dropped: strict admission admits a packet the library refuses (token spent, then silently dropped; decoded path answers FORMERR)", "ECS option well formed except scope > family width"),
 "C06-w2A": ("middleware/edns/edns.go ResponseWriter.WriteMsg", "the merge of w.opt.Option into a response's own OPT moved after stripECS/stripKeepalive: the forwarded ECS copy reaches the client", "ECS forwarding on, client allowed, downstream response with its own OPT, Msg path"),
 "C06-w2B": ("middleware/cache/entry_wire.go prepareWireServe", "wireHasDNSSEC from the answer section only (same mechanism as wave 1)", "cached signed negative answer, DO=0, byte path"),
 "C07-w2A": ("middleware/resolver/resolver.go checkGlueRR", "the AAAA glue loop lost its bailiwick check (IPv4 loop kept it): out-of-zone AAAA glue cached resolver-wide", "ipv6access on, referral naming an out-of-zone NS host with AAAA in additional, later glue-less delegation to it"),
 "C07-w2B": ("internal/dnsclient/conn.go QuestionMatches", "names compared in place folding case with |0x20 on every byte: '[' vs '{' etc. compare equal, a reply about a different name is accepted", "two names differing only in [/{ ]/} ^/~"),
 "C08-w2A": ("middleware/resolver/resolver.go resolve (isRoot seed)", "noteCut after the searchCache seed dropped: answers learned through a cached delegation are cached with no cut deadline", "second name under a short-leased delegation resolved from the cached delegation, parent withdraws, asked again after the lease"),
 "C08-w2B": ("middleware/resolver/resolver.go extractDelegationInfo", "running minimum `if h.Ttl < info.nsTTL` became assignment: lease = TTL of the last NS record", "referral whose NS TTLs differ with the smallest not last"),
 "C09-w2A": ("middleware/resolver/auto_trust_anchor.go AutoTA", "StateRevoked/Removed markers dropped unconditionally, not only after a successful writeTombstones: no durable record of the revocation remains", "new revocation + fault on the tombstone file only + restart with the key still configured"),
 "C09-w2B": ("middleware/resolver/auto_trust_anchor.go AutoTA", "the !revocationOnly guard narrowed to the absent-key branch: pending→valid and missing→valid run under revocation-only authentication", "key pending > 30 days + a set self-signed only by the revoked key"),
 "C10-w2A": ("middleware/edns/edns.go serveWire", "the deferred unwrap+scrub of the slab's edns writer runs inline after ch.Next: a panicking request leaves cookie state for the next client", "wire-born query with COOKIE, a panic downstream of edns, slab reuse by a client without cookie"),
 "C10-w2B": ("server/tcp_stream.go tcpStream.stage", "flush test uses held+len(payload) instead of held+need (2-byte prefix not counted): a frame announced at N bytes with N-2 staged", "pipelined burst whose staged replies land exactly on 8191/8192 bytes"),
 "C11-w2A": ("middleware/resolver/zone_inflight.go zoneInflightLimiter.acquire", "the rollback bucket.Add(-1) on a refused acquire removed: every shed lookup leaks zone quota", "a zone hitting its in-flight quota at least once"),
 "C11-w2B": ("server/strict.go ServeRawReplay", "decoded fallback calls serveMsg (clock restarts) instead of serveMsgBy(readTime+timeout)", "inline fast path, packet the strict parser declines but that decodes, queue wait, slow upstreams"),
 "C12-w2A": ("middleware/resolver/resolver.go processDelegation restart", "restart resolveState loses work (same mechanism as wave 1)", "minimisation restart in enforce mode"),
 "C12-w2B": ("middleware/resolver/resolver.go subQuery", "child state no longer given work: DS/DNSKEY helper lookups go undebited", "enforce mode + DS/DNSKEY fetch walking several delegations"),
 "C13-w2A": ("middleware/cache/cache.go ResponseWriter.WriteMsg", "second SERVFAIL block records the failure with netip.Prefix{} instead of w.clientScope: an ECS-audience failure is filed as global", "ECS client whose answer is a CNAME loop, then a non-ECS client within the backoff"),
 "C13-w2B": ("middleware/cache/failure_cache.go walkFailureZones", "dns.NextLabel replaced by IndexByte('.')+1: a\\.b.example. treated as a child of b.example.", "QNAME with an escaped dot inside a label on the decoded path"),
 "C14-w2A": ("middleware/resolver/dnssec/rsa.go rsaVerifyPKCS1v15", "the c >= n range check dropped: sig+n verifies under a wide-exponent key", "RSA key with exponent > 2^31 and a signature small enough that sig+n fits"),
 "C14-w2B": ("middleware/resolver/dnssec/keytag.go KeyTag", "short-chunk fallback guard changed from decoded != len(out) to in[n-1]=='=': wrapped base64 flips the byte parity, wrong key tag", "PublicKey > 256 chars with line breaks such that a window holds 4 mod 8 CR/LF octets"),
 "C15-w2A": ("internal/wire/pack.go msgBits", "opcode masked with &0xF (the library does not mask): different flags word for opcodes ≥ 16", "message built in code with Opcode ≥ 16"),
 "C15-w2B": ("internal/wire/pack.go libraryPackImmutable", "early exit gained `|| msg.Rcode <= 0xF`: the library's extended-rcode write then clears the caller's OPT TTL top octet", "fallback (>4096 bytes) + OPT with stale extended-rcode bits + low rcode"),
 "C16-w2A": ("internal/cache/uint64_unsafe_map.go backwardShiftDelete", "i < k → i <= k (same mechanism as wave 1)", "probe chain wrapping the array end"),
 "C16-w2B": ("internal/cache/segment_uint64_map.go SetWithCap spill loop", "per-segment count.Add(-d) became one Add(-evicted) after the loop, skipped by the early return: Len() stays above reachable entries", "over-capacity insert that spills + concurrent Remove before the next loop check"),
 "C17-w2A": ("internal/ipset/ipset.go Set.add", "p = p.Masked() dropped: a CIDR written with host bits covers only addresses from the written host upward", "CIDR with non-zero host bits and a source in the block below it"),
 "C17-w2B": ("middleware/accesslist/accesslist.go New", "open default chosen after compiling (same mechanism as wave 1)", "every entry malformed"),
 "C18-w2A": ("middleware/blocklist/blocklist.go persist", "os.Remove(path) inserted before os.Rename: a window (and any failed rename) with no local file", "crash or fault exactly between remove and rename"),
 "C18-w2B": ("middleware/blocklist/blocklist.go ServeDNS", "fast path hasEntries := len(b.m) > 0 only: a wildcard-only list passes blocked names on", "list holding only wildcard entries"),
 "C19-w2A": ("internal/dnsutil/helpers.go SetEdns0", "the unconditional opt.Option = nil moved into the else arm of the forwarding decision: when Clamp rejects the client's ECS nothing is stripped", "ECS on, client allowed, an ECS option that decodes but cannot be clamped"),
 "C19-w2B": ("internal/ecs/policy.go ClampScope", "source clamp and floor merged into one switch: once SCOPE>SOURCE fires the min_scope widening is skipped", "forward ceiling finer than the floor + authority returning SCOPE > SOURCE"),
 "C20-w2A": ("middleware/dns64/dns64.go isDNSSECFailure", "first EDE only (same mechanism as wave 1)", "SERVFAIL with ≥2 EDEs, DNSSEC one not first"),
 "C20-w2B": ("middleware/dns64/dns64.go negativeAAAATTL", "`soa.Minttl > 0 && soa.Minttl < ttl` lost its second half: MINIMUM whenever non-zero", "SOA TTL below SOA MINIMUM and A TTL above the SOA TTL"),
}
T.update(W2)
W3 = {
 "C01-w3A": ("middleware/resolver/resolver.go Resolver.answer", "FilterRRsToZone(resp.Ns, signer) moved after VerifyWildcardAnswerForZoneWithWork: an unsigned out-of-zone NSEC satisfies the wildcard next-closer proof, replayed wildcard data is served with AD=1", "on-path tamperer replaying a genuine wildcard RRSIG over an existing name plus a forged out-of-zone NSEC straddling the query name"),
 "C01-w3B": ("middleware/cache/entry_wire_chase.go composeWireChase", "the `if !ad { ClearAD }` step merged into the CD handling: the body keeps the alias entry's AD while info.AuthenticatedData is false, so edns never clears it", "cached bare-CNAME alias with AD=1, separately cached AD=0 target, wire-born request on the wire chase route"),
 "C02-w3A": ("middleware/resolver/dnssec/nsec.go closestEncloserFromNSEC", "max of the two shared-suffix counts became min: the wildcard is checked at a shallower encloser and the real wildcard is never required to be denied", "a wildcard below the apex (*.b.zone) and a reply built from two genuine signed NSECs"),
 "C02-w3B": ("middleware/resolver/resolver.go Resolver.authority", "NSEC/NSEC3 proof sets filtered with the queried zone instead of the chosen signer: unsigned NSECs owned in the parent are accepted for the child's denial", "signed parent and child on one server plus a tampered NXDOMAIN with the child's SOA and forged parent-owned NSECs"),
 "C03-w3A": ("middleware/cache/failure_cache.go failureQuestionHash + LookupWire (two edits)", "the CD dimension dropped from the failure hash and the entry.question.CD == cd re-check removed: a CD=1 cached SERVFAIL is served to a CD=0 wire-born client", "CD=1 query ending in a cacheable SERVFAIL, then a CD=0 undecoded query for the same question within the backoff"),
 "C03-w3B": ("middleware/cache/entry_wire_chase.go Cache.collectWireChase", "entryMatchesWireQuestion replaced by an inline name/type/class comparison: cd and scope of a hop are no longer checked", "wire-born request whose exact hit is a bare alias plus a hop stored under a colliding key for another audience"),
 "C04-w3A": ("middleware/cache/denial_proof_cache.go denialProofResponse", "the synthesised denial's expiry/TTL no longer start from soa.expires: a replaced shorter-lived SOA does not bound the reply; the request-tree bound is set too late", "two admissions for one zone, the second replacing the shared SOA with a shorter-lived one, then a query answered from an NSEC of the first"),
 "C04-w3B": ("middleware/cache/store.go Store.ReplaceIfCurrent", "CompareAndDelete + build + unconditional Set instead of build + pointer CompareAndSwap: a late refresh overwrites a newer client write", "a client-path SetFromResponse for the same key landing between the claim and the publish"),
 "C05-w3A": ("middleware/cache/entry_wire_chase.go Cache.serveChaseHit", "the per-entry limiter charge moved ahead of the lease/compose/size checks: a chase that is charged and then declines is charged again on replay", "cache ratelimit on, cached CNAME chain, composed reply larger than the client's UDP size, ServeRawInline then ServeRawReplay"),
 "C05-w3B": ("middleware/request.go Request.parseWireOPT", "keepalive length check `!= 0 && != 2` became `> 2`: a one-octet keepalive the library rejects is admitted to the wire path", "an OPT carrying option 11 with length exactly 1"),
 "C06-w3A": ("middleware/edns/edns.go (*EDNS).serveWire deferred release", "a job-owned writer slot is no longer zeroed (only references dropped): cookieRaw/hasCookieRaw survive to the next request on the job", "strict ingress, a query with a COOKIE then a query with an OPT but no cookie on the same job"),
 "C06-w3B": ("server/udp_engine.go acceptHeader", "the QR test moved behind the opcode and section-count reject tests: a response-shaped packet with a foreign opcode is answered (reflection loop)", "QR=1 combined with a non-query opcode or out-of-range counts"),
 "C07-w3A": ("internal/dnsclient/conn.go (*Conn).Exchange", "a bound of 8 stray datagrams exits the ID-matching loop with err == nil and the last mismatched datagram", "at least 9 wrong-ID datagrams with the right question before the genuine reply"),
 "C07-w3B": ("middleware/cache/store.go Store.ReplaceIfCurrent", "the refresh builds the entry from resp instead of the filtered message: an out-of-zone chain tail is cached and served as a complete answer", "prefetch of a hot name whose upstream reply carries an out-of-zone chain tail"),
 "C08-w3A": ("middleware/resolver/resolver.go Resolver.processDelegation", "leaseDeadline instead of childDeadline handed to lookupV4Nss: an aborted NS-address lookup leaves a provisional delegation that outlives the ancestor's lease", "nested referral with long TTL under a short ancestor lease, glue-less lookup aborted by deadline/cancel/work limit"),
 "C08-w3B": ("middleware/cache/cache.go Cache.additionalAnswer (NXDOMAIN branch)", "lineage.inherit() removed: an alias of a bare NXDOMAIN target no longer inherits the target's delegation lease", "CNAME whose target returns NXDOMAIN with empty sections and a target lease shorter than the alias entry's life"),
 "C09-w3A": ("middleware/resolver/auto_trust_anchor.go Resolver.AutoTA", "the tombstone-precedence scan runs only when state was seeded from config", "crash between the tombstone write and the state-file write, then restart"),
 "C09-w3B": ("middleware/resolver/auto_trust_anchor.go stageRevocationSelfSignatures", "state filter `Valid || Missing` became `Valid`: Missing + RevBit is never staged, the revoked key stays trusted", "history VALID → absent → reappears with REVOKE and a self-signature"),
 "C10-w3A": ("server/tcp_stream.go tcpStream.reset + server/tcp_engine.go serveConn release (two edits)", "reset scrubs the buffers only when conn == nil and the release only nils conn: unconsumed pipelined frames of client A are served on client B's connection", "a session ending with leftover fill bytes and the next connection drawing the same stream from the pool"),
 "C10-w3B": ("middleware/edns/edns.go (*EDNS).serveWire deferred cleanup", "job-owned writer slot not zeroed (cookie reset only): cookieRaw/hasCookieRaw stale", "strict path, slab reuse, previous query with a cookie, next with OPT but no cookie"),
 "C11-w3A": ("middleware/cache/cache.go Cache.ServeDNS", "the leader's DoneGeneration moved into the unwind closure registered after the expired-at-election early return", "a request valid at ingress but expired on reaching the cache, first for its key"),
 "C11-w3B": ("middleware/resolver/resolver.go groupLookup leader closure", "the global resolutionSlots release became explicit after r.lookup: the per-zone-quota shed return leaks the slot", "a zone at its in-flight quota while more questions for that zone arrive"),
 "C12-w3A": ("middleware/resolver/handler.go + middleware/failover/failover.go (two edits)", "work-limit SERVFAILs no longer tagged request-local, and failover's ledger-latch guard replaced by a check of that tag: an over-budget tree is rescued by the fallback resolver", "enforce mode, fallback servers configured, a non-outbound budget exhausted"),
 "C12-w3B": ("middleware/cache/cache.go Cache.additionalAnswer", "`cnameDepth := 10` moved below the lookup: label: the hop cap resets every hop", "alias chain longer than 10 hops of distinct names, firewall not enforcing"),
 "C13-w3A": ("middleware/resolver/resolver.go Resolver.lookup", "early-exit condition re-parenthesised to `len(responseErrors) > 2 || (level < 2 && NXDOMAIN)`: three error replies end the lookup and a zone failure is recorded", "zone with ≥4 authority addresses, three lame ones answering before the healthy one"),
 "C13-w3B": ("middleware/cache/cache.go cacheableResolutionFailure", "contextutil.EffectiveError(ctx) == nil became ctx.Err() == nil: a SERVFAIL written when the deadline elapsed but the timer has not fired is recorded as shared failure state", "the socket deadline winning the race against the context timer"),
 "C14-w3A": ("middleware/resolver/dnssec/rsa.go rsaVerifyPKCS1v15", "the `c.Cmp(n) >= 0` range check dropped: sig + n is accepted as a second valid signature", "RSA key with exponent above 2^31 and a forged signature = genuine + modulus"),
 "C14-w3B": ("middleware/resolver/dnssec/ds_digest.go oversizedKeyMaterial + dsDigestMatches (two edits)", "the material-counting walk for wrapped keys removed and the post-decode length re-check dropped: a line-wrapped oversized DNSKEY matches a DS the library would not produce", "both edits plus a CR/LF-wrapped key with more than 4092 octets of material"),
 "C15-w3A": ("internal/wire/pack.go TryPack", "defer state.release() moved after the packInto success check, the decline path does a bare Put: a stale compression dictionary poisons the next pack", "a message failing inside packInto followed by a compressible message sharing a name, same pooled state"),
 "C15-w3B": ("internal/wire/pack.go packState.packInto", "the selected-OPT shim applied only in the additional section: the same *dns.OPT aliased from Answer/Ns goes out with the caller's stale TTL", "selected OPT also referenced from Answer/Ns and rcode above 15 or stale bits in the OPT TTL"),
 "C16-w3A": ("internal/cache/segment_uint64_map.go SegmentUInt64Map.Clear", "per-segment count.Add(-n) replaced by one count.Store(0) after the loop", "a Set landing in an already-cleared segment during Clear"),
 "C16-w3B": ("internal/cache/uint64_unsafe_map.go UInt64Map.EvictKeysAt", "the `&& skip != 0` guard on the out-of-band zero-key eviction dropped: Add(0, v) at capacity evicts key 0", "key exactly 0 inserted over capacity with fewer than two other entries in its segment"),
 "C17-w3A": ("middleware/accesslist/accesslist.go New", "open default chosen when the compiled set is empty instead of when the configured list is empty", "a non-empty access list whose every entry is unparsable"),
 "C17-w3B": ("middleware/pipeline.go autoWire + middleware/accesslist/accesslist.go ServeDNS (two edits)", "the prefetch sub-pipeline built including client-only handlers and the Internal() pass-through dropped: internal sub-queries are denied by the client access list", "both edits, a restrictive list not covering the internal source, the prefetch route"),
 "C18-w3A": ("middleware/blocklist/blocklist.go persist", "writes go through a bufio.Writer whose Flush error is logged but not acted on: sync, close and rename still happen", "a write fault part-way through the temp file (ENOSPC, quota, EFBIG)"),
 "C18-w3B": ("middleware/blocklist/blocklist.go Exists + updater.go loadInitial (two edits)", "direct-match fast path ahead of the whitelist check, static entries inserted before the whitelist is loaded: a whitelisted name that is exactly a static block entry is blocked", "both edits and a config with blocklist tracker.example.com, whitelist example.com"),
 "C19-w3A": ("middleware/edns/edns.go ResponseWriter.WriteMsg", "stripECS runs only when ecsPolicy != nil: an upstream-supplied ECS option is relayed to the client", "policy nil (default) and an upstream attaching ECS unsolicited"),
 "C19-w3B": ("internal/ecs/policy.go Build + middleware/edns/edns.go buildECSPolicy (two edits)", "min_scope range checks moved into a validate() whose error still returns the policy, and edns keeps it: edns forwards subnets while the cache runs scope-unaware", "both edits and an [ecs] block whose only defect is min_scope_v4 > 32 or min_scope_v6 > 128"),
 "C20-w3A": ("middleware/dns64/dns64.go isDNSSECFailure", "dnsutil.GetEDE (first EDE only) instead of scanning all options: a SERVFAIL whose DNSSEC EDE is not first is synthesised over", "upstream SERVFAIL with several EDE options, the DNSSEC one not first"),
 "C20-w3B": ("middleware/dns64/config.go compileConfig", "the default-to-64:ff9b::/96 block moved after the hasWellKnown()-guarded exclusion parsing: special-use IPv4 ranges are translated under the defaulted prefix", "the well-known prefix in effect only by default and a target in a special-use IPv4 range"),
}
T.update(W3)
# wave 4: table generated from the authors' notes (tools/seeded_w4.json)
W4 = {k: tuple(v) for k, v in json.load(open('/verif/tools/seeded_w4.json')).items()}
T.update(W4)
# wave 5 (second-review-pass repairs): same generation
W5 = {k: tuple(v) for k, v in json.load(open('/verif/tools/seeded_w5.json')).items()}
T.update(W5)
W6 = {k: tuple(v) for k, v in json.load(open('/verif/tools/seeded_w6.json')).items()}
T.update(W6)
for i, (where, breaks, needs) in sorted(T.items()):
    d = f"{S}/{i}"
    if not os.path.isdir(d):
        continue
    mp = f"{d}/meta.json"
    meta = json.load(open(mp)) if os.path.exists(mp) else {}
    demos = []
    for root, _, fs in os.walk(f"{d}/demo"):
        for f in fs:
            demos.append(os.path.relpath(os.path.join(root, f), f"{d}/demo"))
    meta.update({"property": i.split("-")[0], "wave": 6 if "-w6" in i else 5 if "-w5" in i else 4 if "-w4" in i else (3 if "-w3" in i else (2 if "-w2" in i else 1)), "changed": where, "breaks": breaks, "needs_to_manifest": needs,
                 "demo_files": sorted(demos), "author": "independent sub-agent given only the property text and a scratch worktree",
                 "confirmed_by": "tools/verify_seeded.sh in a scratch worktree of /repo HEAD: patch applies and builds; existing tests of the touched packages with the change; demo with the change (must FAIL); demo without it (must PASS)",
                 "verification": verification(i)})
    if "--run" in sys.argv:
        meta["checks_run_against_it"] = run_checks(i)
        own = meta["checks_run_against_it"].get(i.split("-")[0], {})
        meta["detected_by_own_property_check"] = bool(own.get("exit") == 1)
        print(i, "detected" if meta["detected_by_own_property_check"] else "MISSED", own.get("reported", [])[:3])
    json.dump(meta, open(mp, "w"), indent=1)

if os.path.isdir(WT):
    subprocess.run(["git", "-C", "/repo", "worktree", "remove", "--force", WT])
